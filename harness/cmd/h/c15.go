package main

import (
	"bytes"
	"encoding/hex"
	"errors"
	"fmt"
	"io"
	"os"
	"os/exec"
	"slices"
	"strconv"
	"strings"
	"sync"

	"github.com/creachadair/mds/shell"
)

// C15 (Quote/Join) and C16 (Split/Scanner): three streams.
//
//	C16          split <hex> | shsplit <hex>…
//	C16.scanner  reset new <hex> <eof|fail> <frag> | rst … | next | split | each k | rest
//	C15          quote <hex> | join <hex>… | shjoin <hex>… | par <hex>…
//
// Byte strings travel as lower-case hex, the empty string as ".".

func c15hex(b []byte) string {
	if len(b) == 0 {
		return "."
	}
	return hex.EncodeToString(b)
}

func c15unhex(s string) []byte {
	if s == "." {
		return nil
	}
	b, _ := hex.DecodeString(s)
	return b
}

func c15fields(ss []string) string {
	var sb strings.Builder
	sb.WriteByte('[')
	for i, s := range ss {
		if i > 0 {
			sb.WriteByte(' ')
		}
		sb.WriteString(c15hex([]byte(s)))
	}
	sb.WriteByte(']')
	return sb.String()
}

// c15shard returns this generator process's shard index and the number of
// shards (tools/check.py starts `h gen <stream> <seed*1000+shard> <tier>` once
// per shard), so that exhaustive scopes are partitioned rather than repeated.
func c15shard(g *G) (int, int) {
	n := 2
	if g.Thorough() {
		n = 8
	}
	if v, err := strconv.Atoi(os.Getenv("VERIF_SHARDS")); err == nil && v > 0 {
		n = v
	}
	sh := 0
	if len(os.Args) > 3 {
		if v, err := strconv.ParseInt(os.Args[3], 10, 64); err == nil {
			sh = int(v % 1000)
		}
	}
	if sh >= n {
		return 0, 1 // started by hand with an arbitrary seed: do everything
	}
	return sh, n
}

// ---------------------------------------------------------------- shells as a secondary oracle

var c15shells = func() []string {
	var out []string
	for _, p := range []string{"/bin/sh", "/bin/bash"} {
		if st, err := os.Stat(p); err == nil && !st.IsDir() {
			out = append(out, p)
		}
	}
	return out
}()

func c15haveShells() bool { return len(c15shells) == 2 }

func c15runShell(sh string, script []byte) []byte {
	cmd := exec.Command(sh, "-c", string(script))
	cmd.Env = []string{"LC_ALL=C", "PATH=/usr/bin:/bin"}
	out, err := cmd.Output()
	if err != nil {
		return append(out, []byte("\x00!error:"+strings.ReplaceAll(err.Error(), " ", "_"))...)
	}
	return out
}

// c16shEligible: complete, no NUL, nothing special to the shell outside the
// quoting rules that shell.Split implements, no unquoted newline, and no
// `\$`/“\`“ inside double quotes (POSIX removes that backslash, Split keeps it).
func c16shEligible(b []byte) bool {
	mode := 0
	plain := func(c byte) bool {
		return c >= 'a' && c <= 'z' || c >= 'A' && c <= 'Z' || c >= '0' && c <= '9' || c == ' ' || c == '\t' || c == 0xe9 || c == '_' || c == '.' || c == '/'
	}
	for i := 0; i < len(b); i++ {
		c := b[i]
		if c == 0 {
			return false
		}
		switch mode {
		case 0:
			switch {
			case c == '\\':
				if i+1 == len(b) || b[i+1] == 0 {
					return false
				}
				i++
			case c == '\'':
				mode = 1
			case c == '"':
				mode = 2
			case !plain(c):
				return false
			}
		case 1:
			if c == '\'' {
				mode = 0
			}
		case 2:
			switch {
			case c == '\\':
				if i+1 == len(b) || b[i+1] == '$' || b[i+1] == '`' || b[i+1] == 0 {
					return false
				}
				i++
			case c == '"':
				mode = 0
			case c == '$' || c == '`':
				return false
			}
		}
	}
	return mode == 0
}

// c16shSplit asks a shell for the fields of each input: `set -- <input>`.
func c16shSplit(sh string, inputs [][]byte) string {
	var script bytes.Buffer
	for _, in := range inputs {
		script.WriteString("set -- ")
		script.Write(in)
		script.WriteString("\nprintf '%s\\0' \"$#\" \"$@\"\n")
	}
	parts := bytes.Split(c15runShell(sh, script.Bytes()), []byte{0})
	var out []string
	i := 0
	for range inputs {
		if i >= len(parts) {
			out = append(out, "?")
			continue
		}
		n, err := strconv.Atoi(string(parts[i]))
		i++
		if err != nil || i+n > len(parts) {
			out = append(out, "?")
			continue
		}
		fs := make([]string, n)
		for j := range fs {
			fs[j] = string(parts[i+j])
		}
		i += n
		out = append(out, c15fields(fs))
	}
	return strings.Join(out, "|")
}

// c15shWords asks a shell for the words of the command line `printf '%s\0' <line>`.
func c15shWords(sh string, line string) string {
	out := c15runShell(sh, []byte("printf '%s\\0' "+line+"\n"))
	parts := bytes.Split(out, []byte{0})
	if len(parts) > 0 && len(parts[len(parts)-1]) == 0 {
		parts = parts[:len(parts)-1]
	}
	fs := make([]string, len(parts))
	for i, p := range parts {
		fs[i] = string(p)
	}
	return c15fields(fs)
}

// ---------------------------------------------------------------- C16: Split

type c16 struct {
	st    *Stats
	maxIn int // longest input split earlier in this history (the pooled Scanner keeps its buffers)
}

func (r *c16) Exec(op []string) string {
	switch op[0] {
	case "reset":
		return "-"
	case "split":
		in := c15unhex(op[1])
		fs, ok := shell.Split(string(in))
		if !ok {
			r.st.Note("incomplete")
		}
		if len(fs) >= 3 {
			r.st.Note("three-or-more-fields")
		}
		for _, f := range fs {
			if f == "" {
				r.st.Note("empty-field")
				break
			}
		}
		if bytes.Contains(in, []byte("\\\n")) {
			r.st.Note("backslash-newline")
		}
		if bytes.ContainsAny(in, "'\"") {
			r.st.Note("quotes")
		}
		if len(in) > 20 {
			r.st.Note("long-input")
		}
		if len(in) > 4096 {
			r.st.Note("input>4096-bytes(bufio-refill)")
		}
		longest := 0
		for _, f := range fs {
			longest = max(longest, len(f))
		}
		lbNote(r.st, "split-token", longest)
		lbNote(r.st, "split-fields", len(fs))
		if len(in) <= 64 {
			switch {
			case r.maxIn > lbKiB64:
				r.st.Note("short-split-after-input>65536")
			case r.maxIn > 4096:
				r.st.Note("short-split-after-input>4096")
			case r.maxIn > 64:
				r.st.Note("short-split-after-input>64")
			}
		}
		r.maxIn = max(r.maxIn, len(in))
		return fmt.Sprintf("fields=%s ok=%s", c15fields(fs), fmtBool(ok))
	case "shsplit":
		var ins [][]byte
		for _, h := range op[1:] {
			ins = append(ins, c15unhex(h))
		}
		r.st.Note("shell-oracle")
		if !c15haveShells() {
			return "sh=unavailable"
		}
		return fmt.Sprintf("sh=%s bash=%s", c16shSplit(c15shells[0], ins), c16shSplit(c15shells[1], ins))
	}
	return "bad-op"
}

var c16alpha = []byte{'a', ' ', '\n', '\\', '\'', '"', 'b'}

// c16enum calls f with every string over alpha of length exactly n.
func c16enum(alpha []byte, n int, f func([]byte)) {
	buf := make([]byte, n)
	var rec func(i int)
	rec = func(i int) {
		if i == n {
			f(buf)
			return
		}
		for _, c := range alpha {
			buf[i] = c
			rec(i + 1)
		}
	}
	rec(0)
}

// c16random draws a byte string that is mostly well-formed shell text.
func c16random(g *G, n int) []byte {
	out := make([]byte, 0, n)
	for len(out) < n {
		switch k := g.Intn(100); {
		case k < 40:
			out = append(out, "abcxyz019_./"[g.Intn(12)])
		case k < 55:
			out = append(out, " \t"[g.Intn(2)])
		case k < 62:
			out = append(out, '\n')
		case k < 74:
			out = append(out, '\\')
		case k < 84:
			out = append(out, '\'')
		case k < 94:
			out = append(out, '"')
		case k < 97:
			out = append(out, byte(g.Intn(256)))
		default:
			out = append(out, "$`*|;#=~"[g.Intn(8)])
		}
	}
	return out
}

// c16runBody: n bytes (plus delimiters) of ONE lexical state: 0 bare word, 1 single-quoted body, 2 double-quoted
// body, 3 double-quoted body with escape pairs, 4 blanks, 5 backslash pairs, 6 unterminated single quote.
func c16runBody(g *G, kind, n int) []byte {
	b := make([]byte, 0, n+8)
	switch kind {
	case 0: // bare word
		for len(b) < n {
			b = append(b, "abcxyz019_./"[g.Intn(12)])
		}
	case 1: // single-quoted body (anything but a single quote is literal)
		b = append(b, '\'')
		for len(b) < n+1 {
			b = append(b, "ab \t\\\"$\n"[g.Intn(8)])
		}
		b = append(b, '\'')
	case 2: // double-quoted body without escapes
		b = append(b, '"')
		for len(b) < n+1 {
			b = append(b, "ab \t'$\n"[g.Intn(7)])
		}
		b = append(b, '"')
	case 3: // double-quoted body made of escape pairs and text
		b = append(b, '"')
		for len(b) < n+1 {
			if g.Chance(1, 3) {
				b = append(b, '\\', "\\\"a\n$"[g.Intn(5)])
			} else {
				b = append(b, 'a')
			}
		}
		b = append(b, '"')
	case 4: // blanks
		for len(b) < n {
			b = append(b, " \t\n"[g.Intn(3)])
		}
	case 5: // backslash pairs outside quotes
		for len(b) < n {
			b = append(b, '\\', "\\ a'\"\n"[g.Intn(6)])
		}
	case 6: // unterminated single quote (Split reports false, the text is kept)
		b = append(b, '\'')
		for len(b) < n {
			b = append(b, "ab "[g.Intn(3)])
		}
	}
	return b
}

// c16longRuns emits inputs in which ONE lexical state lasts longer than any buffer between the reader and the
// scanner (the bufio.Reader's 4096 bytes, twice that, and a little around both): a bare word, a single- and a
// double-quoted body, a double-quoted body full of escapes, a run of blanks, a run of backslash pairs, a comment.
// Random text changes state every few bytes and never gets there.
func c16longRuns(g *G, f func(b []byte)) {
	lens := []int{4094, 4095, 4096, 4097, 8192, 8193}
	if g.Thorough() {
		lens = append(lens, 4093, 4098, 8190, 8191, 8194, 9000, 12288, 12289, 16385)
	}
	body := func(kind, n int) []byte { return c16runBody(g, kind, n) }
	i := 0
	for kind := 0; kind <= 6; kind++ {
		for _, n := range lens {
			if !g.Mine(i) {
				i++
				continue
			}
			i++
			// the run at the very start, and after a short prefix that shifts it against the buffer boundary
			pre := [][]byte{nil, []byte("x "), []byte("a'b' \"c\" ")}[g.Intn(3)]
			b := append(append([]byte{}, pre...), body(kind, n)...)
			b = append(b, " tail 'q' \"r\"\n"...)
			f(b)
		}
	}
}

func genC16(g *G) {
	sh, nsh := c15shard(g)
	const perCase = 200
	ops := []string{"reset"}
	flush := func() {
		if len(ops) > 1 {
			g.Case(ops)
		}
		ops = []string{"reset"}
	}
	add := func(b []byte) {
		ops = append(ops, "split "+c15hex(b))
		if len(ops) > perCase {
			flush()
		}
	}
	// every single byte, and the empty string (dealt to the shards)
	single := func(b []byte) { g.Each([]string{"reset", "split " + c15hex(b)}) }
	single(nil)
	for c := 0; c < 256; c++ {
		single([]byte{byte(c)})
	}
	// exhaustive over one representative per class + a second default byte
	maxLen := g.Scale(6, 8)
	idx := 0
	for n := 1; n <= maxLen; n++ {
		c16enum(c16alpha, n, func(b []byte) {
			if idx%nsh == sh {
				if n <= 4 {
					// one input per case: a failure here is reported as a minimal input
					g.Case([]string{"reset", "split " + c15hex(b)})
				} else {
					add(b)
				}
			}
			idx++
		})
	}
	flush()
	// tab as the second blank, in every position of short strings
	for n := 1; n <= 4; n++ {
		c16enum([]byte{'a', '\t', '\\', '"'}, n, single)
	}
	// random longer inputs
	for i := 0; i < g.Scale(400, 6000); i++ {
		add(c16random(g, 8+g.Intn(g.Scale(120, 400))))
	}
	flush()
	// a few inputs longer than the 4096-byte buffer of the bufio.Reader under the Scanner (one and two refills;
	// a token, a quoted string or a backslash pair straddling the boundary)
	for i := 0; i < g.Scale(3, 40); i++ {
		b := c16random(g, 4090+g.Intn(g.Scale(20, 5000)))
		if i%3 == 1 { // one long quoted run across the boundary
			for j := 4000; j < 4200 && j < len(b); j++ {
				b[j] = "ab \t"[g.Intn(4)]
			}
			b[3990] = '"'
		}
		// a short Split first: the long one then gets a pooled Scanner that has been used, also when the case is
		// re-executed alone (shrinking, replay)
		g.Case([]string{"reset", "split 612062", "split " + c15hex(b)})
	}
	c16longRuns(g, func(b []byte) { g.Case([]string{"reset", "split 2761", "split " + c15hex(b), "split 612062"}) })
	// the two shells on eligible inputs
	if c15haveShells() {
		batches := g.Scale(25, 300)
		shAlpha := []byte{'a', 'b', ' ', '\t', '\\', '\'', '"', '\n', 0xe9}
		for i := 0; i < batches; i++ {
			line := "shsplit"
			for k := 0; k < 40; {
				n := g.Intn(9)
				b := make([]byte, n)
				for j := range b {
					b[j] = shAlpha[g.Intn(len(shAlpha))]
				}
				if g.Chance(1, 4) {
					b = c16random(g, n+3)
				}
				if !c16shEligible(b) {
					continue
				}
				line += " " + c15hex(b)
				k++
			}
			g.Case([]string{"reset", line})
		}
	}
	// LAST (the pooled Scanners are per process): long inputs followed by short ones in one history
	c16large(g)
}

// c16words: n short words (some quoted, some empty, some with an escaped blank) separated by blanks.
func c16words(g *G, n int) []byte {
	var b []byte
	for k := 0; k < n; k++ {
		if k > 0 {
			b = append(b, " \t\n"[g.Intn(3)])
			if g.Chance(1, 8) {
				b = append(b, ' ')
			}
		}
		switch g.Intn(8) {
		case 0:
			b = append(b, "''"...)
		case 1:
			b = append(b, '\'', "ab "[g.Intn(3)], '\'')
		case 2:
			b = append(b, '"', "ab "[g.Intn(3)], '"', 'c')
		case 3:
			b = append(b, 'a', '\\', ' ', 'b')
		default:
			for j, m := 0, 1+g.Intn(3); j < m; j++ {
				b = append(b, "abcxyz019_./"[g.Intn(12)])
			}
		}
	}
	return b
}

var c16small = []string{"612062", "2761206227", "276162", "61225c2262222063", ".", "5c", "61200a09", "2222", "615c0a62"}

// c16large: size thresholds and carry-over for top-level Split.  A token (or a run of blanks, or an unterminated
// quotation) of t-1, t, t+1 bytes for every threshold t, in every lexical state; tokens beyond 64 KiB; inputs of
// 7..4097 tokens, growing and shrinking; each long input is followed by short ones in the SAME history because
// Split takes its Scanner (token buffer, bufio.Reader, state, error) from a pool and puts it back.
func c16large(g *G) {
	off := int(c13genSeed() / 1000)
	if off < 0 {
		off = -off
	}
	sm := func(i int) string { return "split " + c16small[((i%len(c16small))+len(c16small))%len(c16small)] }
	wrap := func(kind, n int) string {
		pre := [][]byte{nil, []byte("x "), []byte("a'b' \"c\" ")}[g.Intn(3)]
		b := append(append([]byte{}, pre...), c16runBody(g, kind, n)...)
		if g.Chance(2, 3) {
			b = append(b, " tail 'q' \"r\"\n"...)
		}
		return "split " + c15hex(b)
	}
	const kinds = 7
	for ti, t := range lbThresholds {
		ks := []int{(ti + off) % kinds, (ti + off + 3) % kinds}
		if g.Thorough() {
			ks = []int{0, 1, 2, 3, 4, 5, 6}
		} else if t >= 4096 {
			ks = ks[:1]
		}
		for _, k := range ks {
			ops := []string{"reset", sm(ti)}
			for j, n := range []int{t - 1, t, t + 1} {
				ops = append(ops, wrap(k, n), sm(ti+2*j+1), sm(ti+2*j+2))
			}
			g.Each(ops)
		}
	}
	type big struct{ n, kind int }
	bigs := []big{{70000, 3}, {lbKiB64 + 1, 1}, {lbKiB64, 0}}
	if g.Thorough() {
		for _, n := range []int{lbKiB64 - 1, lbKiB64, lbKiB64 + 1, 70000, 2*lbKiB64 + 1} {
			for k := 0; k < kinds; k++ {
				bigs = append(bigs, big{n, k})
			}
		}
	}
	for i, bc := range bigs {
		ops := []string{"reset", sm(i), wrap(bc.kind, bc.n)}
		for k := 1; k <= 8; k++ {
			ops = append(ops, sm(i+k))
		}
		g.Each(ops)
	}
	// many tokens
	counts := lbAround(g.Scale(1025, 4097))
	for lo := 0; lo < len(counts); lo += 6 {
		grp := counts[lo:min(lo+6, len(counts))]
		ops := []string{"reset"}
		for _, n := range grp {
			ops = append(ops, "split "+c15hex(c16words(g, n)), sm(n))
		}
		for k := len(grp) - 1; k >= 0; k-- {
			ops = append(ops, "split "+c15hex(c16words(g, grp[k])), sm(k))
		}
		g.Each(ops)
	}
	g.Each([]string{"reset", sm(0), "split " + c15hex(c16words(g, 4097)), sm(1), sm(2), "split " + c15hex(c16words(g, 9)), sm(3)})
	// the two shells on a long command line
	if c15haveShells() {
		for i := 0; i < g.Scale(1, 6); i++ {
			var b []byte
			for k := 0; k < 700; k++ {
				b = append(b, []byte(fmt.Sprintf("w%d 'q %d' \"d %d\" e\\ %d ", k, k, k, k))...)
			}
			b = append(b, c16runBody(g, i%3, 4097+i)...)
			if c16shEligible(b) {
				g.Each([]string{"reset", "shsplit " + c15hex(b) + " 612062"})
			}
		}
	}
}

// ---------------------------------------------------------------- C16.scanner

var errC16Injected = errors.New("injected read error")

// c16Reader returns data in the prescribed fragments, then tail forever.
type c16Reader struct {
	data     []byte
	cuts     []int // ascending end positions of the fragments (the last one is implicit)
	pos      int
	tail     error
	withTail bool // deliver the last fragment together with tail
	zero     bool // a (0, nil) read before every fragment
	zeroDone bool
}

func (r *c16Reader) Read(p []byte) (int, error) {
	if len(p) == 0 {
		return 0, nil
	}
	if r.pos >= len(r.data) {
		return 0, r.tail
	}
	if r.zero && !r.zeroDone {
		r.zeroDone = true
		return 0, nil
	}
	r.zeroDone = false
	end := len(r.data)
	for _, c := range r.cuts {
		if c > r.pos && c < end {
			end = c
			break
		}
	}
	n := copy(p, r.data[r.pos:end])
	r.pos += n
	if r.pos == len(r.data) && r.withTail {
		return n, r.tail
	}
	return n, nil
}

func c16NewReader(h, tail, frag string, st *Stats) *c16Reader {
	r := &c16Reader{data: c15unhex(h), tail: io.EOF}
	if tail == "fail" {
		r.tail = errC16Injected
		st.Note("reader-error")
	}
	shape, flags, _ := strings.Cut(frag, "/")
	switch {
	case shape == "b1":
		for i := 1; i < len(r.data); i++ {
			r.cuts = append(r.cuts, i)
		}
		st.Note("one-byte-reads")
	case strings.HasPrefix(shape, "c"):
		for _, c := range strings.Split(shape[1:], ",") {
			r.cuts = append(r.cuts, atoi(c))
		}
		st.Note("cut-reads")
	}
	if strings.Contains(flags, "e") {
		r.withTail = true
		st.Note("data-and-error-together")
	}
	if strings.Contains(flags, "z") {
		r.zero = true
		st.Note("zero-length-reads")
	}
	if len(r.data) > 4096 {
		st.Note("input>4096-bytes(bufio-refill)")
	}
	return r
}

type c16scan struct {
	sc      *shell.Scanner
	st      *Stats
	sawEnd  bool
	didRest bool
	maxTok  int // longest token this Scanner has delivered in this history (kept across Reset)
	nTok    int // tokens delivered since the last Reset
}

func (r *c16scan) noteTok(n int) {
	lbNote(r.st, "scanner-token", n)
	r.maxTok = max(r.maxTok, n)
	r.nTok++
	for _, t := range lbThresholds {
		if r.nTok == t {
			r.st.Note("scanner-tokens" + lbClass(t))
		}
	}
}

func c16err(err error) string {
	switch err {
	case nil:
		return "nil"
	case io.EOF:
		return "EOF"
	case errC16Injected:
		return "E"
	}
	return "other:" + strings.ReplaceAll(err.Error(), " ", "_")
}

func (r *c16scan) obs(res string) string {
	if blindObs { // second, query-free execution (Stream.Blind): Text/Complete/Err are not asked
		return res
	}
	return fmt.Sprintf("%s text=%s complete=%s err=%s", res, c15hex([]byte(r.sc.Text())), fmtBool(r.sc.Complete()), c16err(r.sc.Err()))
}

func (r *c16scan) Exec(op []string) string {
	switch op[0] {
	case "reset":
		r.sc = shell.NewScanner(c16NewReader(op[2], op[3], op[4], r.st))
		r.sawEnd, r.didRest = false, false
		return r.obs("-")
	case "rst":
		r.sc.Reset(c16NewReader(op[1], op[2], op[3], r.st))
		r.st.Note("scanner-reset")
		if c := lbClass(r.maxTok); c != "" && len(op[1]) <= 128 {
			r.st.Note("scanner-reset-to-short-input-after-token" + c)
		}
		r.nTok = 0
		r.sawEnd, r.didRest = false, false
		return r.obs("-")
	case "next":
		if r.sawEnd {
			r.st.Note("next-after-false")
		}
		if r.didRest {
			r.st.Note("next-after-rest")
		}
		ok := r.sc.Next()
		if !ok {
			r.sawEnd = true
		} else if !blindObs && r.sc.Err() == io.EOF && !r.sc.Complete() {
			r.st.Note("final-token-incomplete")
		}
		if ok && !blindObs { // label only: no query in the query-free execution
			r.noteTok(len(r.sc.Text()))
		}
		return r.obs("next=" + fmtBool(ok))
	case "split":
		toks := r.sc.Split()
		r.sawEnd = true
		for _, t := range toks {
			r.noteTok(len(t))
		}
		return r.obs("toks=" + c15fields(toks))
	case "each":
		k := atoi(op[1])
		var got []string
		r.sc.Each(func(tok string) bool {
			got = append(got, tok)
			return len(got) <= k
		})
		if len(got) > k {
			r.st.Note("each-stopped-by-f")
		} else {
			r.sawEnd = true
		}
		for _, t := range got {
			r.noteTok(len(t))
		}
		return r.obs("toks=" + c15fields(got))
	case "rest":
		if r.sc.Err() == nil {
			r.st.Note("rest-before-end")
		} else {
			r.st.Note("rest-after-end")
		}
		rd := r.sc.Rest()
		data, err := io.ReadAll(rd)
		if len(data) > 0 {
			r.st.Note("rest-nonempty")
		}
		r.didRest = true
		return r.obs(fmt.Sprintf("rest=%s resterr=%s", c15hex(data), c16err(err)))
	}
	return "bad-op"
}

// c16frags lists every set of cut points of an input of length n (n ≤ 6).
func c16frags(n int) []string {
	if n <= 1 {
		return []string{"all"}
	}
	var out []string
	for m := 0; m < 1<<(n-1); m++ {
		var cs []string
		for i := 1; i < n; i++ {
			if m&(1<<(i-1)) != 0 {
				cs = append(cs, strconv.Itoa(i))
			}
		}
		if len(cs) == 0 {
			out = append(out, "all")
		} else {
			out = append(out, "c"+strings.Join(cs, ","))
		}
	}
	return out
}

func c16randFrag(g *G, n int) string {
	frag := "all"
	switch g.Intn(4) {
	case 0:
		frag = "b1"
	case 1, 2:
		if n > 1 {
			var cs []string
			for i := 1; i < n; i++ {
				if g.Chance(1, 1+g.Intn(6)) {
					cs = append(cs, strconv.Itoa(i))
				}
			}
			if len(cs) > 0 {
				frag = "c" + strings.Join(cs, ",")
			}
		}
	}
	switch g.Intn(6) {
	case 0:
		frag += "/e"
	case 1:
		frag += "/z"
	case 2:
		frag += "/ez"
	}
	return frag
}

func genC16Scanner(g *G) {
	sh, nsh := c15shard(g)
	// (a) short inputs: every fragmentation × every point at which Rest is called
	maxLen := g.Scale(4, 5)
	idx := 0
	for n := 0; n <= maxLen; n++ {
		c16enum(c16alpha, n, func(b []byte) {
			idx++
			if idx%nsh != sh {
				return
			}
			// quick tier: all inputs to length 3, every fourth of length 4
			if !g.Thorough() && n == 4 && (idx/nsh)%4 != 0 {
				return
			}
			toks, _ := shell.Split(string(b))
			frags := c16frags(n)
			// reader variants: for inputs to length 2 (thorough 3) EVERY variant with every set of cut points;
			// for the longer ones one variant per (input, cut set), rotating
			type variant struct{ tail, flag string }
			variants := []variant{{"eof", ""}, {"eof", "/e"}, {"fail", ""}, {"eof", "/z"}, {"eof", ""}, {"fail", "/e"}, {"fail", "/z"}, {"eof", "/ez"}, {"fail", "/ez"}}
			for fv := 0; fv < len(frags)*len(variants); fv++ {
				fi, vi := fv/len(variants), fv%len(variants)
				frag := frags[fi]
				if n > g.Scale(2, 3) {
					if vi != (fi+idx)%5 {
						continue
					}
				} else if vi == 4 {
					continue // the duplicate of the plain variant (kept in the list for the rotation above)
				}
				tail, flag := variants[vi].tail, variants[vi].flag
				for restAt := 0; restAt <= len(toks)+1; restAt++ {
					ops := []string{fmt.Sprintf("reset new %s %s %s%s", c15hex(b), tail, frag, flag)}
					for i := 0; i < restAt; i++ {
						ops = append(ops, "next")
					}
					ops = append(ops, "rest", "next", "rest", "next")
					g.Case(ops)
				}
				// no Rest at all: run to the end and beyond
				ops := []string{fmt.Sprintf("reset new %s %s %s%s", c15hex(b), tail, frag, flag)}
				for i := 0; i < len(toks)+3; i++ {
					ops = append(ops, "next")
				}
				g.Case(ops)
			}
		})
	}
	// (a') inputs longer than the 4096-byte bufio buffer: Next up to a random token, Rest across the refill
	// boundary (what Rest returns is the buffered remainder followed by the unread part of the reader)
	for c := 0; c < g.Scale(8, 80); c++ {
		b := c16random(g, 4090+g.Intn(g.Scale(20, 5000)))
		toks, _ := shell.Split(string(b))
		tail := g.Pick("eof", "eof", "fail")
		frag := "all"
		switch c % 4 {
		case 1:
			frag = fmt.Sprintf("c%d,%d,%d", 4095, 4096, 4097)
		case 2:
			frag = fmt.Sprintf("c%d", 1+g.Intn(4089)) + g.Pick("", "/e", "/z")
		case 3:
			frag = "b1"
		}
		ops := []string{fmt.Sprintf("reset new %s %s %s", c15hex(b), tail, frag)}
		for i, k := 0, g.Intn(len(toks)+2); i < k; i++ {
			ops = append(ops, "next")
		}
		ops = append(ops, "rest", "next", "rest")
		g.Case(ops)
		ops = []string{fmt.Sprintf("reset new %s %s %s", c15hex(b), tail, frag)}
		ops = append(ops, g.Pick("split", fmt.Sprintf("each %d", len(toks)+1)), "next", "rest")
		g.Case(ops)
	}
	// (a'') one lexical state lasting longer than the buffer, whole and byte by byte
	c16longRuns(g, func(b []byte) {
		toks, _ := shell.Split(string(b))
		frag := g.Pick("all", "b1", "c4095,4096,4097")
		ops := []string{fmt.Sprintf("reset new %s eof %s", c15hex(b), frag)}
		for i := 0; i < len(toks)+2; i++ {
			ops = append(ops, "next")
		}
		g.Case(ops)
		g.Case([]string{fmt.Sprintf("reset new %s eof %s", c15hex(b), frag), "next", "rest", "next"})
	})
	// (b) random longer inputs, random fragmentation, random use of the API incl. Reset
	for c := 0; c < g.Scale(400, 8000); c++ {
		var ops []string
		rounds := 1 + g.Intn(3)
		for rd := 0; rd < rounds; rd++ {
			b := c16random(g, g.Intn(g.Scale(60, 200)))
			tail := "eof"
			if g.Chance(1, 5) {
				tail = "fail"
			}
			hd := "rst"
			if rd == 0 {
				hd = "reset new"
			}
			ops = append(ops, fmt.Sprintf("%s %s %s %s", hd, c15hex(b), tail, c16randFrag(g, len(b))))
			toks, _ := shell.Split(string(b))
			steps := g.Intn(len(toks) + 4)
			for i := 0; i < steps; i++ {
				switch k := g.Intn(100); {
				case k < 70:
					ops = append(ops, "next")
				case k < 80:
					ops = append(ops, fmt.Sprintf("each %d", g.Intn(4)))
				case k < 86:
					ops = append(ops, "split")
				case k < 92:
					ops = append(ops, "rest")
				default:
					ops = append(ops, "next", "next")
				}
			}
			switch g.Intn(4) {
			case 0:
				ops = append(ops, "split", "next")
			case 1:
				ops = append(ops, "rest", "next", "split")
			case 2:
				ops = append(ops, fmt.Sprintf("each %d", len(toks)+1), "next", "rest")
			}
		}
		g.Case(ops)
	}
	c16scanLarge(g)
}

// c16scanLarge: size thresholds and carry-over for ONE Scanner used on several inputs through Reset: a token of
// about t bytes for every threshold t (every lexical state, every kind of reader), then a short input, then a long
// one again; tokens beyond 64 KiB; 7..4097 tokens taken with Next, Each (stopped around a threshold) and Split.
// Rest in the middle of the input is asked for only while the consumed prefix is short (the specification's
// account of it is quadratic in that prefix); at the very start and after the end it is asked for at every size.
func c16scanLarge(g *G) {
	off := int(c13genSeed() / 1000)
	if off < 0 {
		off = -off
	}
	const kinds = 7
	input := func(kind, n int) []byte {
		b := append([]byte("x "), c16runBody(g, kind, n)...)
		return append(b, " tail 'q' \"r\"\n"...)
	}
	frag := func(i, t int) string {
		switch i % 5 {
		case 1:
			if t <= 1025 {
				return "b1"
			}
		case 2:
			return fmt.Sprintf("c%d,%d,%d", max(t-1, 1), t, t+1)
		case 3:
			return "all/z"
		case 4:
			return fmt.Sprintf("c%d/e", 1+g.Intn(t))
		}
		return "all"
	}
	short := func(i int) string {
		return fmt.Sprintf("rst %s %s all", c16small[i%len(c16small)], []string{"eof", "eof", "fail"}[i%3])
	}
	for ti, t := range lbThresholds {
		ks := []int{(ti + off) % kinds}
		if g.Thorough() {
			ks = []int{0, 1, 2, 3, 4, 5, 6}
		}
		for _, k := range ks {
			ops := []string{fmt.Sprintf("reset new %s eof %s", c15hex(input(k, t)), frag(ti+k, t))}
			for i := 0; i < 7; i++ {
				ops = append(ops, "next")
			}
			ops = append(ops, short(ti), "next", "next", "next")
			ops = append(ops, fmt.Sprintf("rst %s %s %s", c15hex(input((k+1)%kinds, t+1)), g.Pick("eof", "fail"), frag(ti+k+1, t+1)))
			if t <= 1024 {
				ops = append(ops, "next", "next", "rest", "next")
			} else {
				ops = append(ops, "next", "rest", "next")
			}
			ops = append(ops, short(ti+1), "next", "rest", "next")
			ops = append(ops, fmt.Sprintf("rst %s eof %s", c15hex(input((k+2)%kinds, t-1)), frag(ti+k+2, t-1)), g.Pick("split", "each 7"), "next", "rest",
				short(ti+2), "split")
			g.Each(ops)
		}
	}
	type big struct {
		n, kind int
		frag    string
	}
	bigs := []big{{70000, 0, "all"}, {lbKiB64 + 1, 2, fmt.Sprintf("c%d,%d", lbKiB64-1, lbKiB64)}}
	if g.Thorough() {
		for _, n := range []int{lbKiB64 - 1, lbKiB64, lbKiB64 + 1, 70000} {
			for k := 0; k < kinds; k++ {
				bigs = append(bigs, big{n, k, []string{"all", "c4096,8192,65536", "all/z"}[k%3]})
			}
		}
	}
	for i, bc := range bigs {
		in := c15hex(input(bc.kind, bc.n))
		g.Each([]string{fmt.Sprintf("reset new %s eof %s", in, bc.frag), "next", "next", "next", short(i), "next", "next", "rest", "next",
			fmt.Sprintf("rst %s eof %s", in, bc.frag), "next", "rest", short(i + 1), "split"})
	}
	// many tokens
	counts := lbAround(g.Scale(1025, 4097))
	if !g.Thorough() {
		counts = append(counts, 4097)
	}
	for ci, n := range counts {
		if !g.Thorough() && ci%3 != off%3 && n != 4097 {
			continue
		}
		in := c15hex(c16words(g, n))
		ops := []string{fmt.Sprintf("reset new %s eof %s", in, g.Pick("all", "all", "c4095,4096,4097", "all/z")), "next", "next"}
		if n > 16 {
			// stop Each just below, at, and just above a quarter of the tokens, go on with Next, take the rest at once
			ops = append(ops, fmt.Sprintf("each %d", n/4-2), "next", fmt.Sprintf("each %d", 1), "next")
		}
		ops = append(ops, "split", "next", short(ci), "next", "next", fmt.Sprintf("rst %s fail all", in), fmt.Sprintf("each %d", n), "next", "rest")
		g.Each(ops)
	}
}

// ---------------------------------------------------------------- C15: Quote / Join

type c15 struct {
	st     *Stats
	maxOut int // longest Quote/Join output of this history so far (the pooled buffer has grown to at least this)
}

// noteOut labels an output by the size threshold it reached, and a short call that follows a long one in the
// same history (the pooled buffer carries the earlier call's capacity and, if not reset, its contents).
func (r *c15) noteOut(what string, n int) {
	lbNote(r.st, what+"-output", n)
	if n <= 64 {
		switch {
		case r.maxOut > lbKiB64:
			r.st.Note("short-" + what + "-after-output>65536")
		case r.maxOut > 4096:
			r.st.Note("short-" + what + "-after-output>4096")
		case r.maxOut > 64:
			r.st.Note("short-" + what + "-after-output>64")
		}
	}
	r.maxOut = max(r.maxOut, n)
}

func c15strings(hs []string) []string {
	out := make([]string, len(hs))
	for i, h := range hs {
		out[i] = string(c15unhex(h))
	}
	return out
}

func (r *c15) Exec(op []string) string {
	switch op[0] {
	case "reset":
		return "-"
	case "quote":
		s := string(c15unhex(op[1]))
		q := shell.Quote(s)
		// buffer pool: interleave other calls, the result must not change
		_ = shell.Join([]string{"x y", s, "'"})
		_, _ = shell.Split("a 'b c' d")
		if q2 := shell.Quote(s); q2 != q {
			return "unstable q=" + c15hex([]byte(q)) + " q2=" + c15hex([]byte(q2))
		}
		switch {
		case s == "":
			r.st.Note("quote-empty")
		case q == s:
			r.st.Note("quote-unchanged")
		case strings.Contains(s, "'") && strings.ContainsAny(s, " \t\n|&;<>()$`\\\"*?[#~=%"):
			r.st.Note("quote-mixed")
		case strings.Contains(s, "'"):
			r.st.Note("quote-only-single-quotes")
		default:
			r.st.Note("quote-single-quoted")
		}
		if strings.IndexByte(s, 0) >= 0 {
			r.st.Note("contains-NUL")
		}
		r.noteOut("quote", len(q))
		fs, ok := shell.Split(q)
		return fmt.Sprintf("q=%s fields=%s ok=%s", c15hex([]byte(q)), c15fields(fs), fmtBool(ok))
	case "join":
		ss := c15strings(op[1:])
		if len(ss) == 0 {
			r.st.Note("join-empty-list")
		}
		for _, s := range ss {
			if s == "" {
				r.st.Note("join-empty-string")
				break
			}
		}
		if len(ss) >= 3 {
			r.st.Note("join-three-or-more")
		}
		j := shell.Join(ss)
		lbNote(r.st, "join-args", len(ss))
		r.noteOut("join", len(j))
		fs, ok := shell.Split(j)
		return fmt.Sprintf("j=%s fields=%s ok=%s", c15hex([]byte(j)), c15fields(fs), fmtBool(ok))
	case "shjoin":
		ss := c15strings(op[1:])
		r.st.Note("shell-oracle")
		if len(ss) >= 8 && len(ss[0]) >= 2 && !slices.ContainsFunc(ss, func(s string) bool { return len(s) != len(ss[0]) }) {
			r.st.Note("shell-oracle-on-exhaustive-short-strings")
		}
		if !c15haveShells() {
			return "sh=unavailable"
		}
		line := shell.Join(ss)
		return fmt.Sprintf("sh=%s bash=%s", c15shWords(c15shells[0], line), c15shWords(c15shells[1], line))
	case "par":
		ss := c15strings(op[1:])
		r.st.Note("concurrent")
		for _, s := range ss {
			if len(s) > 4096 {
				r.st.Note("concurrent-with-string>4096")
				break
			}
		}
		qs := make([]string, len(ss))
		sp := make([]string, len(ss))
		var wg sync.WaitGroup
		for i, s := range ss {
			wg.Add(1)
			go func() {
				defer wg.Done()
				for it := 0; it < 40; it++ {
					q := shell.Quote(s)
					j := shell.Join([]string{s})
					fs, _ := shell.Split(q)
					if it > 0 && (q != qs[i] || c15fields(fs) != sp[i] || j != q) {
						qs[i] = "unstable"
						return
					}
					qs[i], sp[i] = q, c15fields(fs)
				}
			}()
		}
		wg.Wait()
		return fmt.Sprintf("qs=%s splits=[%s]", c15fields(qs), strings.Join(sp, " "))
	}
	return "bad-op"
}

// 16 symbols: quotes, backslash, whitespace, metacharacters, an ordinary letter, high bytes.
var c15alpha = []byte{'\'', '"', '\\', ' ', '\t', '\n', '$', '`', '*', '|', ';', '#', '=', 'a', 0xe9, 0x80}

func c15randString(g *G, maxLen int, nul bool) []byte {
	n := g.Intn(maxLen + 1)
	b := make([]byte, n)
	for i := range b {
		switch k := g.Intn(10); {
		case k < 6:
			b[i] = c15alpha[g.Intn(len(c15alpha))]
		case k < 8:
			b[i] = "abcXYZ09-_./:,+@"[g.Intn(16)]
		case k < 9:
			b[i] = "&<>()?[~%!{}^]"[g.Intn(14)]
		default:
			b[i] = byte(g.Intn(256))
		}
		if !nul && b[i] == 0 {
			b[i] = 'n'
		}
	}
	return b
}

func genC15(g *G) {
	sh, nsh := c15shard(g)
	const perCase = 100
	ops := []string{"reset"}
	flush := func() {
		if len(ops) > 1 {
			g.Case(ops)
		}
		ops = []string{"reset"}
	}
	add := func(line string) {
		ops = append(ops, line)
		if len(ops) > perCase {
			flush()
		}
	}
	// every single byte value, the empty string (fixed cases: dealt to the shards)
	g.Each([]string{"reset", "quote .", "join", "join .", "join . ."})
	for c := 0; c < 256; c++ {
		// one input per case: a failure here is reported as a minimal input
		g.Each([]string{"reset", "quote " + c15hex([]byte{byte(c)})})
	}
	// all strings over the 16-symbol alphabet
	maxLen := g.Scale(3, 4)
	idx := 0
	for n := 2; n <= maxLen; n++ {
		c16enum(c15alpha, n, func(b []byte) {
			if idx%nsh == sh {
				if n == 2 {
					g.Case([]string{"reset", "quote " + c15hex(b)})
				} else {
					add("quote " + c15hex(b))
				}
			}
			idx++
		})
	}
	flush()
	// all pairs of strings of length ≤ 1 over the alphabet, as two-element lists
	one := [][]byte{nil}
	for _, c := range c15alpha {
		one = append(one, []byte{c})
	}
	for _, a := range one {
		for _, b := range one {
			if idx%nsh == sh {
				add("join " + c15hex(a) + " " + c15hex(b))
			}
			idx++
		}
	}
	flush()
	// random strings and lists
	for i := 0; i < g.Scale(6000, 60000); i++ {
		if g.Chance(1, 3) {
			add("quote " + c15hex(c15randString(g, 12, true)))
			continue
		}
		n := g.Intn(7)
		line := "join"
		for k := 0; k < n; k++ {
			line += " " + c15hex(c15randString(g, 6, true))
		}
		add(line)
	}
	flush()
	// concurrent use of the pooled buffers
	for i := 0; i < g.Scale(6, 60); i++ {
		line := "par"
		for k := 0; k < 8; k++ {
			line += " " + c15hex(c15randString(g, 10, true))
		}
		g.Case([]string{"reset", line})
	}
	// the two shells: every byte 1..255 as a one-byte word, then random lists without NUL
	if c15haveShells() {
		if sh == 0 {
			for lo := 1; lo < 256; lo += 32 {
				line := "shjoin"
				for c := lo; c < lo+32 && c < 256; c++ {
					line += " " + c15hex([]byte{byte(c)})
				}
				g.Case([]string{"reset", line})
			}
		}
		// the exhaustive short strings also go to the shells, 32 words per shell call: every two-symbol string
		// over the 16-symbol alphabet, every two-symbol string over the metacharacters that are not in it, and a
		// sample of the three-symbol strings (one in 8, a different residue class per seed; thorough: all, and one
		// in 16 of the four-symbol strings).  NUL cannot be passed to a shell and is not in the alphabet.
		var words [][]byte
		c16enum(c15alpha, 2, func(b []byte) { words = append(words, slices.Clone(b)) })
		c16enum([]byte("&<>()?[~% 'a"), 2, func(b []byte) { words = append(words, slices.Clone(b)) })
		pick, k := g.Scale(8, 1), 0
		off := int(c13genSeed()/1000) % pick
		c16enum(c15alpha, 3, func(b []byte) {
			if k%pick == off {
				words = append(words, slices.Clone(b))
			}
			k++
		})
		if g.Thorough() {
			c16enum(c15alpha, 4, func(b []byte) {
				if k%16 == off {
					words = append(words, slices.Clone(b))
				}
				k++
			})
		}
		for lo := 0; lo < len(words); lo += 32 {
			line := "shjoin"
			for _, w := range words[lo:min(lo+32, len(words))] {
				line += " " + c15hex(w)
			}
			g.Each([]string{"reset", line})
		}
		for i := 0; i < g.Scale(40, 500); i++ {
			line := "shjoin"
			n := 1 + g.Intn(30)
			for k := 0; k < n; k++ {
				b := c15randString(g, 6, false)
				// braces, `!` and `^` are not special to a POSIX shell but bash expands {a,b}: keep them out of
				// the secondary oracle (they stay in the quote/join ops judged by the specification)
				for j, c := range b {
					if c == '{' || c == '}' || c == '!' || c == '^' {
						b[j] = 'b'
					}
				}
				line += " " + c15hex(b)
			}
			g.Case([]string{"reset", line})
		}
	}
	// LAST (the pools are per process: a call that spoils a pooled buffer must not make the ordinary cases
	// above fail in the run and pass when re-executed alone): large outputs and short calls after them
	c15large(g)
}

// c15big returns a string for which Quote's output is exactly n bytes (n >= 4; shape 4: about n), built from the
// quoting rule, not by calling the code under test.
//
//	0  one quoted run: letters and blanks                      'ab c'          out = len+2
//	1  only single quotes and letters: no quoted run at all    a\'b            out = len+#quotes
//	2  plain letters and ONE blank (first, last, or inside)    'aaaa aaa'      out = len+2
//	3  plain letters and ONE single quote                      aaaa\'aaa       out = len+1
//	4  everything: quotes, metacharacters, NUL, high bytes (length n, output longer)
func c15big(g *G, shape, n int) []byte {
	letters := func(b []byte) {
		for i := range b {
			b[i] = "abcxyz019_./"[g.Intn(12)]
		}
	}
	pos := func(l int) int {
		switch g.Intn(4) {
		case 0:
			return 0
		case 1:
			return l - 1
		}
		return g.Intn(l)
	}
	switch shape {
	case 0:
		b := make([]byte, n-2)
		for i := range b {
			b[i] = "abcxyz019_./ \t"[g.Intn(14)]
		}
		b[g.Intn(len(b))] = ' '
		return b
	case 1:
		k := 1 + g.Intn(n/2)
		b := make([]byte, n-k)
		letters(b)
		for _, i := range g.R.Perm(len(b))[:k] {
			b[i] = '\''
		}
		return b
	case 2:
		b := make([]byte, n-2)
		letters(b)
		b[pos(len(b))] = " \t\n$"[g.Intn(4)]
		return b
	case 3:
		b := make([]byte, n-1)
		letters(b)
		b[pos(len(b))] = '\''
		return b
	}
	b := make([]byte, n)
	for i := range b {
		switch k := g.Intn(10); {
		case k < 5:
			b[i] = "abcxyz019_./"[g.Intn(12)]
		case k < 9:
			b[i] = c15alpha[g.Intn(len(c15alpha))]
		default:
			b[i] = byte(g.Intn(256))
		}
	}
	return b
}

const c15shapes = 5

// c15large: the size-threshold and carry-over families of stream C15.  Every history mixes calls whose output
// crosses a threshold with short calls before and after them, Quote and Join alternating, because the pooled
// bytes.Buffer is shared by both and keeps what the previous call left in it.
func c15large(g *G) {
	small := []string{"quote 612062", "join 782079 27", "quote 697427732061", "join .", "quote 27", "join 61 . 6220", "quote .", "join"}
	sm := func(i int) string { return small[i%len(small)] }
	hx := func(b []byte) string { return c15hex(b) }
	off := int(c13genSeed() / 1000) // a different shape per threshold for every VERIF_SEED
	if off < 0 {
		off = -off
	}
	// (1) per threshold t: outputs of t-1, t, t+1 bytes (Quote alone, as the first and as the last argument of
	// Join), a short call after each
	for ti, t := range lbThresholds {
		shapes := []int{(ti + off) % c15shapes, (ti + off + 2) % c15shapes}
		if g.Thorough() {
			shapes = []int{0, 1, 2, 3, 4}
		} else if t >= 4096 {
			shapes = shapes[:1]
		}
		for _, sh := range shapes {
			ops := []string{"reset", sm(ti)}
			if t >= 4096 && !g.Thorough() {
				ops = append(ops, "quote "+hx(c15big(g, sh, t+1)), sm(ti+1), sm(ti+2),
					"join "+hx(c15big(g, sh, t-2))+" 61", sm(ti+3), sm(ti+4))
				g.Each(ops)
				continue
			}
			for k, n := range []int{t - 1, t, t + 1} {
				ops = append(ops, "quote "+hx(c15big(g, sh, n)), sm(ti+2*k+1), sm(ti+2*k+2))
			}
			// as Join arguments: the output is the quoted big string, a blank and one letter (t+1 and t bytes)
			ops = append(ops, "join "+hx(c15big(g, sh, t-1))+" 61", sm(ti+7), "join 61 "+hx(c15big(g, sh, t-2)), sm(ti+8), sm(ti+9))
			g.Each(ops)
		}
	}
	// (2) beyond 4 KiB and 64 KiB: one long output, then short calls of every kind in the same history
	type bigCase struct {
		n, shape int
		join     bool
	}
	bigs := []bigCase{{5000, 0, false}, {70000, 2, false}, {5000, 1, true}, {lbKiB64 + 1, 0, true}}
	if g.Thorough() {
		for _, n := range []int{5000, 8191, 8192, 8193, lbKiB64 - 1, lbKiB64, lbKiB64 + 1, 70000, 2*lbKiB64 + 1} {
			for sh := 0; sh < 4; sh++ {
				bigs = append(bigs, bigCase{n, sh, false}, bigCase{n, sh, true})
			}
		}
	}
	for i, bc := range bigs {
		ops := []string{"reset", sm(i)}
		if bc.join {
			// the long output is assembled from three arguments
			a := bc.n / 3
			ops = append(ops, "join "+hx(c15big(g, bc.shape, a))+" "+hx(c15big(g, (bc.shape+1)%4, a))+" "+hx(c15big(g, bc.shape, bc.n-2*a-2)))
		} else {
			ops = append(ops, "quote "+hx(c15big(g, bc.shape, bc.n)))
		}
		for k := 1; k <= 8; k++ {
			ops = append(ops, sm(i+k))
		}
		g.Each(ops)
	}
	// (3) Join of MANY arguments: the number of arguments around every threshold (short words, some of them
	// empty or in need of quoting), ascending and descending in one history, short joins in between
	word := func() string { return hx(c15randString(g, 3, true)) }
	joinN := func(n int) string {
		var sb strings.Builder
		sb.WriteString("join")
		for k := 0; k < n; k++ {
			sb.WriteByte(' ')
			sb.WriteString(word())
		}
		return sb.String()
	}
	counts := lbAround(g.Scale(1025, 4097))
	for lo := 0; lo < len(counts); lo += 6 {
		grp := counts[lo:min(lo+6, len(counts))]
		ops := []string{"reset"}
		for _, n := range grp {
			ops = append(ops, joinN(n), sm(n))
		}
		for k := len(grp) - 1; k >= 0; k-- {
			ops = append(ops, joinN(grp[k]), sm(k))
		}
		g.Each(ops)
	}
	// a command line of 600 flags, and one of 4097 words; then short calls
	flags := "join"
	for k := 0; k < 600; k++ {
		flags += " " + hx([]byte(fmt.Sprintf("--opt%d=%s", k, []string{"v", "a b", "it's", "", "$HOME/x y", "*"}[g.Intn(6)])))
	}
	g.Each([]string{"reset", sm(1), flags, sm(0), sm(1), sm(2), flags, sm(3)})
	g.Each([]string{"reset", sm(2), joinN(4097), sm(0), sm(1), joinN(9), sm(2)})
	// (4) concurrent callers, some of them with long strings: the pool hands buffers of very different
	// capacity to whoever asks next
	for i := 0; i < g.Scale(2, 12); i++ {
		line := "par"
		for k := 0; k < 8; k++ {
			switch k {
			case 1:
				line += " " + hx(c15big(g, i%4, 5000+g.Intn(200)))
			case 4:
				line += " " + hx(c15big(g, (i+1)%4, 4090+g.Intn(10)))
			case 6:
				line += " " + hx(c15big(g, (i+2)%4, 600))
			default:
				line += " " + hx(c15randString(g, 10, true))
			}
		}
		g.Each([]string{"reset", line})
	}
	// (5) the two shells on a long word among short ones (no NUL; nothing bash expands inside the words)
	if c15haveShells() {
		for i := 0; i < g.Scale(1, 6); i++ {
			line := "shjoin " + hx(c15big(g, i%4, 5000+i)) + " 612062 " + hx(c15big(g, (i+1)%4, 4097)) + " 27 61"
			for k := 0; k < 300; k++ {
				line += " " + hx([]byte(fmt.Sprintf("-f%d", k)))
			}
			g.Each([]string{"reset", line})
		}
	}
}

func init() {
	register(&Stream{Name: "C16", Gen: genC16, New: func(st *Stats) Runner { return &c16{st: st} }})
	register(&Stream{Name: "C16.scanner", Gen: genC16Scanner, Blind: true, New: func(st *Stats) Runner { return &c16scan{st: st} }})
	register(&Stream{Name: "C15", Gen: genC15, New: func(st *Stats) Runner { return &c15{st: st} }})
}
