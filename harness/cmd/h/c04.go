package main

import (
	"cmp"
	"fmt"
	"math"
	"sort"
	"strconv"
	"strings"

	"github.com/creachadair/mds/omap"
)

// C04: omap.Map histories with iterators, the zero Map, and copies of a Map.
//
// Map registers hold omap.Map[int,int] VALUES; `copy d s` copies the struct (the copies share
// the tree); `mk m new|zero` makes a fresh map.  Iterator registers are global.  An iterator
// whose map has been edited since it was positioned is stale: the harness (like the model)
// refuses to move or read it, only `itseek` revives it.
//
//	reset nat|rev|div10|flt      (flt: omap.Map[float64,int] from omap.New; the key tokens stand for float keys, see c04fltEnc)
//	mk <m> new|zero | copy <d> <s>
//	setn <m> <k0>,<step>,<n>,<v0> | deleten <m> <k0>,<step>,<n>     (bulk forms: n single calls, one observation)
//	set <m> <k> <v> | delete <m> <k> | clear <m> | get|getok <m> <k> | len|keys|string <m>
//	first|last <i> <m> | seek <i> <m> <k> | itseek <i> <k> | itnext|itprev|itread <i>
//	  -> r=<result>;len=;keys=;str=;its=<i:valid:key:value of the iterators on this map>;all=<m:Len:Get(k) through every register>

// The runner is generic over the KEY type K: the op lines carry integer key TOKENS, `enc` maps a token to the key
// the real Map is called with and `dec` maps a key seen in an observation back to its token.  For the int modes both
// are the identity.  Mode `flt` runs the same lines against omap.Map[float64,int] built with omap.New (the DEFAULT
// comparison, cmp.Compare) under an order isomorphism between the tokens c04fltLo..c04fltHi and float64 keys in
// cmp.Compare order that includes the special values (see c04fltEnc) — so the model side needs nothing new: the
// driver treats `flt` like `nat`.
type c04it[K cmp.Ordered] struct {
	it    *omap.Iter[K, int]
	m     omap.Map[K, int]
	id    int
	stale bool
}

type c04r[K cmp.Ordered] struct {
	mode string
	mk   func() omap.Map[K, int] // the constructor of the mode
	enc  func(tok int) K
	dec  func(k K) int
	str  func(s string) string // Map.String() with the keys mapped back to tokens
	tcmp func(a, b int) int    // the order of the mode on tokens (for the branch notes only)
	maps map[int]omap.Map[K, int]
	ids  map[int]int
	zero map[int]bool // by id
	its  map[int]*c04it[K]
	next int
	st   *Stats
	lg   lgTrack
}

// c04 dispatches on the mode of the reset line to a runner at the key type of the mode.
type c04 struct {
	st  *Stats
	cur Runner
}

func c04cmp(mode string) func(a, b int) int {
	switch mode {
	case "rev":
		return func(a, b int) int { return c03cmpNat(b, a) }
	case "div10":
		return c03cmpDiv
	}
	return c03cmpNat
}

// The float keys of mode `flt`.  Token ↦ key is strictly increasing w.r.t. cmp.Compare on float64:
//
//	c04fltLo ↦ NaN (cmp.Compare: below everything, equal to itself), c04fltLo+1 ↦ -Inf, c04fltLo+2 ↦ -MaxFloat64,
//	t ↦ t/4 (exact; -1 ↦ -0.25, 1 ↦ 0.25), 0 ↦ +0.0 or -0.0 alternately (cmp.Compare: equal),
//	c04fltHi-1 ↦ MaxFloat64, c04fltHi ↦ +Inf.
//
// The generator keeps every key token of a `flt` case inside [c04fltLo, c04fltHi].
const (
	c04fltLo = -1000
	c04fltHi = 1000000
)

func c04fltEnc() func(int) float64 {
	calls := 0
	return func(t int) float64 {
		switch {
		case t <= c04fltLo:
			return math.NaN()
		case t == c04fltLo+1:
			return math.Inf(-1)
		case t == c04fltLo+2:
			return -math.MaxFloat64
		case t == c04fltHi-1:
			return math.MaxFloat64
		case t >= c04fltHi:
			return math.Inf(1)
		case t == 0:
			calls++
			if calls%2 == 0 {
				return math.Copysign(0, -1)
			}
			return 0
		}
		return float64(t) / 4
	}
}

func c04fltDec(f float64) int {
	switch {
	case f != f:
		return c04fltLo
	case math.IsInf(f, -1):
		return c04fltLo + 1
	case f == -math.MaxFloat64:
		return c04fltLo + 2
	case f == math.MaxFloat64:
		return c04fltHi - 1
	case math.IsInf(f, 1):
		return c04fltHi
	}
	return int(f * 4)
}

// c04fltStr rewrites the keys of `omap[k:v k:v]` (as Map.String prints float keys: NaN, -Inf, +Inf, -0, 0.25, 1e+308)
// to tokens.
func c04fltStr(s string) string {
	body, ok := strings.CutPrefix(s, "omap[")
	if !ok || !strings.HasSuffix(body, "]") {
		return "unparsed:" + s
	}
	body = strings.TrimSuffix(body, "]")
	if body == "" {
		return s
	}
	fs := strings.Split(body, " ")
	for i, f := range fs {
		k, v, ok := strings.Cut(f, ":")
		x, err := strconv.ParseFloat(k, 64)
		if !ok || err != nil {
			return "unparsed:" + s
		}
		fs[i] = strconv.Itoa(c04fltDec(x)) + ":" + v
	}
	return "omap[" + strings.Join(fs, " ") + "]"
}

func c04ident(k int) int { return k }

func c04new(mode string, st *Stats) Runner {
	if mode == "flt" {
		return &c04r[float64]{mode: mode, st: st, mk: omap.New[float64, int], enc: c04fltEnc(), dec: c04fltDec,
			str: c04fltStr, tcmp: c03cmpNat}
	}
	r := &c04r[int]{mode: mode, st: st, mk: omap.New[int, int], enc: c04ident, dec: c04ident,
		str: func(s string) string { return s }, tcmp: c04cmp(mode)}
	if mode != "nat" {
		r.mk = func() omap.Map[int, int] { return omap.NewFunc[int, int](c04cmp(mode)) }
	}
	return r
}

func (r *c04) Exec(op []string) string {
	if op[0] == "reset" || r.cur == nil {
		mode := "nat"
		if op[0] == "reset" && len(op) > 1 {
			mode = op[1]
		}
		r.cur = c04new(mode, r.st)
	}
	return r.cur.Exec(op)
}

func (r *c04r[K]) iter(it *omap.Iter[K, int]) string {
	return fmt.Sprintf("%s:%d:%d", fmtBool(it.IsValid()), r.dec(it.Key()), it.Value())
}

func (r *c04r[K]) keys(m omap.Map[K, int]) string {
	ks := m.Keys()
	out := make([]int, len(ks))
	for i, k := range ks {
		out[i] = r.dec(k)
	}
	return fmtInts(out)
}

func (r *c04r[K]) obs(res string, m omap.Map[K, int], id, k int) string {
	if blindObs { // second, query-free execution (Stream.Blind)
		return "r=" + res
	}
	var is []int
	for i, it := range r.its {
		if it.id == id {
			is = append(is, i)
		}
	}
	sort.Ints(is)
	var its []string
	for _, i := range is {
		if r.its[i].stale {
			its = append(its, fmt.Sprintf("%d:stale", i))
		} else {
			its = append(its, fmt.Sprintf("%d:%s", i, r.iter(r.its[i].it)))
		}
	}
	var regs []int
	for reg := range r.maps {
		regs = append(regs, reg)
	}
	sort.Ints(regs)
	var all []string
	for _, reg := range regs {
		all = append(all, fmt.Sprintf("%d:%d:%d", reg, r.maps[reg].Len(), r.maps[reg].Get(r.enc(k))))
	}
	r.lg.see(r.st, "omap", m.Len())
	return fmt.Sprintf("r=%s;len=%d;keys=%s;str=%s;its=%s;all=%s", res, m.Len(), r.keys(m), r.str(m.String()),
		strings.Join(its, " "), strings.Join(all, " "))
}

// noteSize records the operations that act on a map of 20 or more / 100 or more entries.
func (r *c04r[K]) noteSize(op string, n int) {
	switch op {
	case "seek", "first", "last", "delete", "itnext", "itprev", "set":
		if n >= 100 {
			r.st.Note("len>=100:" + op)
		} else if n >= 20 {
			r.st.Note("len>=20:" + op)
		}
	}
}

// noteKey records, in mode flt, that a special float value was used as a key.
func (r *c04r[K]) noteKey(op string, k int) {
	if r.mode != "flt" {
		return
	}
	switch k {
	case c04fltLo:
		r.st.Note("flt:NaN:" + op)
	case c04fltLo + 1, c04fltHi:
		r.st.Note("flt:Inf:" + op)
	case 0:
		r.st.Note("flt:zero:" + op)
	}
}

func (r *c04r[K]) staleAll(id int) {
	for _, it := range r.its {
		if it.id == id {
			it.stale = true
		}
	}
}

func (r *c04r[K]) Exec(op []string) string {
	switch op[0] {
	case "reset":
		r.maps = map[int]omap.Map[K, int]{}
		r.ids = map[int]int{}
		r.zero = map[int]bool{}
		r.its = map[int]*c04it[K]{}
		r.next = 0
		r.lg.reset()
		if r.mode == "flt" {
			r.st.Note("flt")
		}
		return "-"
	case "mk":
		reg := atoi(op[1])
		id := r.next
		r.next++
		if op[2] == "zero" {
			var z omap.Map[K, int]
			r.maps[reg] = z
			r.zero[id] = true
			r.st.Note("zero-map")
		} else {
			r.maps[reg] = r.mk()
		}
		r.ids[reg] = id
		return r.obs(fmt.Sprint(r.maps[reg].Len()), r.maps[reg], id, 0)
	case "copy":
		d, s := atoi(op[1]), atoi(op[2])
		src, ok := r.maps[s]
		if !ok {
			return "r=nomap"
		}
		r.maps[d] = src // struct copy
		r.ids[d] = r.ids[s]
		r.st.Note("copy")
		return r.obs(fmt.Sprint(src.Len()), r.maps[d], r.ids[d], 0)
	case "itseek", "itnext", "itprev", "itread":
		i := atoi(op[1])
		it, ok := r.its[i]
		if !ok {
			return "r=noreg"
		}
		k := 0
		res := ""
		switch op[0] {
		case "itseek":
			k = atoi(op[2])
			if it.stale {
				r.st.Note("re-seek-after-edit")
			}
			r.noteKey(op[0], k)
			it.it.Seek(r.enc(k))
			it.stale = false
			res = r.iter(it.it)
		case "itnext", "itprev":
			if it.stale {
				res = "stale"
				break
			}
			was := it.it.IsValid()
			r.noteSize(op[0], it.m.Len())
			if op[0] == "itnext" {
				it.it.Next()
			} else {
				it.it.Prev()
			}
			if was && !it.it.IsValid() {
				r.st.Note(op[0] + "-off-end")
			} else if !was {
				r.st.Note(op[0] + "-on-invalid")
			}
			res = r.iter(it.it)
		case "itread":
			if it.stale {
				res = "stale"
			} else {
				res = r.iter(it.it)
			}
		}
		return r.obs(res, it.m, it.id, k)
	}
	// the numbers of a bulk line are ONE comma-separated token (the shrinker of tools/check.py drops tokens inside
	// lines of more than five)
	var bulk []int
	if op[0] == "setn" || op[0] == "deleten" {
		if len(op) != 3 {
			return "bad-op"
		}
		for _, t := range strings.Split(op[2], ",") {
			bulk = append(bulk, atoi(t))
		}
		if len(bulk) != map[string]int{"setn": 4, "deleten": 3}[op[0]] {
			return "bad-op"
		}
	}
	// map operations: <op> <m> … or first|last|seek <i> <m> …
	mi := 1
	if op[0] == "first" || op[0] == "last" || op[0] == "seek" {
		mi = 2
	}
	reg := atoi(op[mi])
	m, ok := r.maps[reg]
	if !ok {
		return "r=nomap"
	}
	id := r.ids[reg]
	r.noteSize(op[0], m.Len())
	if len(r.ids) > 1 {
		for other, oid := range r.ids {
			if other != reg && oid == id {
				r.st.Note("op-through-a-copy")
				break
			}
		}
	}
	switch op[0] {
	case "set":
		k, v := atoi(op[2]), atoi(op[3])
		r.noteKey(op[0], k)
		had := false
		if !blindObs { // label only: no lookup before the Set in the query-free execution
			_, had = m.GetOK(r.enc(k))
		}
		isNew := m.Set(r.enc(k), v) // panics on the zero Map
		if had {
			r.st.Note("set-existing")
		}
		r.staleAll(id)
		return r.obs(fmtBool(isNew), m, id, k)
	case "setn":
		// bulk form of set for the large cases, `setn m k0,d,n,v0`: n single calls Set(k0+i*d, v0+i); the result is
		// the string of their results
		k0, d, n, v0 := bulk[0], bulk[1], bulk[2], bulk[3]
		var sb strings.Builder
		for i := 0; i < n; i++ {
			sb.WriteString(fmtBool(m.Set(r.enc(k0+i*d), v0+i))) // panics on the zero Map
			r.lg.see(r.st, "omap", m.Len())
		}
		r.staleAll(id)
		return r.obs(sb.String(), m, id, 0)
	case "deleten":
		// bulk form of delete, `deleten m k0,d,n`: n single calls Delete(k0+i*d)
		k0, d, n := bulk[0], bulk[1], bulk[2]
		var sb strings.Builder
		any := false
		for i := 0; i < n; i++ {
			was := m.Delete(r.enc(k0 + i*d))
			any = any || was
			sb.WriteString(fmtBool(was))
			r.lg.see(r.st, "omap", m.Len())
		}
		if any {
			r.staleAll(id)
		}
		return r.obs(sb.String(), m, id, 0)
	case "delete":
		k := atoi(op[2])
		r.noteKey(op[0], k)
		was := m.Delete(r.enc(k))
		if was {
			r.staleAll(id)
		}
		return r.obs(fmtBool(was), m, id, k)
	case "clear":
		m.Clear()
		if !r.zero[id] {
			r.staleAll(id)
		}
		return r.obs("-", m, id, 0)
	case "get":
		k := atoi(op[2])
		r.noteKey(op[0], k)
		return r.obs(fmt.Sprint(m.Get(r.enc(k))), m, id, k)
	case "getok":
		k := atoi(op[2])
		r.noteKey(op[0], k)
		v, ok := m.GetOK(r.enc(k))
		return r.obs(fmtPop(v, ok), m, id, k)
	case "len":
		return r.obs(fmt.Sprint(m.Len()), m, id, 0)
	case "keys":
		return r.obs(r.keys(m), m, id, 0)
	case "string":
		return r.obs(r.str(m.String()), m, id, 0)
	case "first", "last", "seek":
		i := atoi(op[1])
		k := 0
		var it *omap.Iter[K, int]
		switch op[0] {
		case "first":
			it = m.First()
		case "last":
			it = m.Last()
		default:
			k = atoi(op[3])
			r.noteKey(op[0], k)
			it = m.Seek(r.enc(k))
			big := ""
			if m.Len() >= 20 {
				big = "len>=20:"
			}
			if !it.IsValid() {
				r.st.Note(big + "seek-past-the-end")
			} else if r.tcmp(r.dec(it.Key()), k) != 0 {
				r.st.Note(big + "seek-absent-key")
				if f := m.First(); r.dec(f.Key()) == r.dec(it.Key()) {
					r.st.Note(big + "seek-below-min")
				}
			} else {
				r.st.Note(big + "seek-present-key")
			}
		}
		r.its[i] = &c04it[K]{it: it, m: m, id: id}
		return r.obs(r.iter(it), m, id, k)
	}
	return "bad-op"
}

// ---- generator ----

type c04gen struct {
	g    *G
	ops  []string
	mode string
	cmp  func(a, b int) int
	keys map[int][]int // state id -> stored keys in comparator order
	zero map[int]bool
	ids  map[int]int  // map register -> state id
	its  map[int]int  // iterator register -> state id
	old  map[int]bool // iterator register is stale
	next int
	nv   int
	span int
}

func (x *c04gen) emit(f string, a ...any) { x.ops = append(x.ops, fmt.Sprintf(f, a...)) }

// ck keeps a key token of a `flt` case inside the range that is mapped to float keys (neighbours key±1 of the
// extreme tokens would fall outside).
func (x *c04gen) ck(k int) int {
	if x.mode == "flt" {
		return min(max(k, c04fltLo), c04fltHi)
	}
	return k
}

// c04fltSpecial are the tokens of the special float keys: NaN, -Inf, -MaxFloat64, ±0, MaxFloat64, +Inf.
var c04fltSpecial = []int{c04fltLo, c04fltLo, c04fltLo, c04fltLo + 1, c04fltLo + 1, c04fltLo + 2, 0, 0, c04fltHi - 1, c04fltHi, c04fltHi}

func (x *c04gen) find(id, k int) (int, bool) {
	ks := x.keys[id]
	i := sort.Search(len(ks), func(i int) bool { return x.cmp(ks[i], k) >= 0 })
	return i, i < len(ks) && x.cmp(ks[i], k) == 0
}

func (x *c04gen) edited(id int) {
	for i, o := range x.its {
		if o == id {
			x.old[i] = true
		}
	}
}

func (x *c04gen) set(reg, k int) {
	k = x.ck(k)
	id := x.ids[reg]
	if x.zero[id] && x.g.Chance(4, 5) {
		return // Set on the zero Map panics; once in a while is enough
	}
	x.nv++
	x.emit("set %d %d %d", reg, k, x.nv)
	if x.zero[id] {
		return
	}
	x.edited(id)
	i, ok := x.find(id, k)
	if ok {
		x.keys[id][i] = k
	} else {
		ks := append(x.keys[id], 0)
		copy(ks[i+1:], ks[i:])
		ks[i] = k
		x.keys[id] = ks
	}
}

func (x *c04gen) del(reg, k int) {
	k = x.ck(k)
	x.emit("delete %d %d", reg, k)
	id := x.ids[reg]
	if i, ok := x.find(id, k); ok {
		x.keys[id] = append(x.keys[id][:i:i], x.keys[id][i+1:]...)
		x.edited(id)
	}
}

// key picks a present key (mostly), an equivalent one, an absent one, or one outside the range.
func (x *c04gen) key(reg int) int {
	g := x.g
	ks := x.keys[x.ids[reg]]
	if x.mode == "flt" && g.Chance(3, 10) {
		// a special float value: as a new key, as a stored key, as a Seek target
		return c04fltSpecial[g.Intn(len(c04fltSpecial))]
	}
	switch c := g.Intn(10); {
	case c < 5 && len(ks) > 0:
		k := ks[g.Intn(len(ks))]
		if x.mode == "div10" && g.Chance(1, 2) {
			k = k/10*10 + g.Intn(10)
		}
		return k
	case c == 5:
		return -5 - g.Intn(20)
	case c == 6:
		return x.span + 5 + g.Intn(20)
	}
	return g.Intn(x.span)
}

func (x *c04gen) reg() int {
	regs := make([]int, 0, len(x.ids))
	for r := range x.ids {
		regs = append(regs, r)
	}
	sort.Ints(regs)
	return regs[x.g.Intn(len(regs))]
}

func (x *c04gen) iter() (int, bool) {
	if len(x.its) == 0 {
		return 0, false
	}
	is := make([]int, 0, len(x.its))
	for i := range x.its {
		is = append(is, i)
	}
	sort.Ints(is)
	return is[x.g.Intn(len(is))], true
}

// liveIter picks an iterator that is not stale (a stale one once in a while: both sides refuse).
func (x *c04gen) liveIter() (int, bool) {
	for try := 0; try < 6; try++ {
		i, ok := x.iter()
		if !ok {
			return 0, false
		}
		if !x.old[i] || x.g.Chance(1, 12) {
			return i, true
		}
	}
	return 0, false
}

func (x *c04gen) mk(reg int, zero bool) {
	kind := "new"
	if zero {
		kind = "zero"
	}
	x.emit("mk %d %s", reg, kind)
	x.ids[reg] = x.next
	x.zero[x.next] = zero
	x.keys[x.next] = nil
	x.next++
}

// run emits Set (del false) or Delete calls for plan[a:b]: maximal arithmetic runs of three or more keys as one
// bulk line when bulk is set, single calls otherwise.
func (x *c04gen) run(reg int, plan []int, a, b int, del, bulk bool) {
	for a < b {
		e := a + 1
		if bulk && e < b {
			d := plan[e] - plan[a]
			for e < b && plan[e]-plan[e-1] == d {
				e++
			}
			if e-a >= 3 {
				id := x.ids[reg]
				if del {
					x.emit("deleten %d %d,%d,%d", reg, plan[a], d, e-a)
				} else {
					x.emit("setn %d %d,%d,%d,%d", reg, plan[a], d, e-a, x.nv+1)
					x.nv += e - a
				}
				for _, k := range plan[a:e] {
					i, ok := x.find(id, k)
					switch {
					case del && ok:
						x.keys[id] = append(x.keys[id][:i:i], x.keys[id][i+1:]...)
					case !del && !ok:
						ks := append(x.keys[id], 0)
						copy(ks[i+1:], ks[i:])
						ks[i] = k
						x.keys[id] = ks
					}
				}
				x.edited(id)
				a = e
				continue
			}
		}
		if del {
			x.del(reg, plan[a])
		} else {
			x.set(reg, plan[a])
		}
		a++
	}
}

// c04plan returns n distinct keys (multiples of step, offset 1) in the given order: 0 ascending, 1 descending,
// 2 four interleaved stripes (arithmetic runs, but far from sorted), 3 outside-in, 4 random.
func c04plan(g *G, n, step, order int) []int {
	ks := make([]int, 0, n)
	key := func(i int) int { return step * (2*i + 1) }
	switch order {
	case 0:
		for i := 0; i < n; i++ {
			ks = append(ks, key(i))
		}
	case 1:
		for i := n - 1; i >= 0; i-- {
			ks = append(ks, key(i))
		}
	case 2:
		for _, r := range []int{0, 2, 1, 3} {
			for i := r; i < n; i += 4 {
				ks = append(ks, key(i))
			}
		}
	case 3:
		for lo, hi := 0, n-1; lo <= hi; lo, hi = lo+1, hi-1 {
			ks = append(ks, key(lo))
			if hi != lo {
				ks = append(ks, key(hi))
			}
		}
	default:
		for _, i := range g.R.Perm(n) {
			ks = append(ks, key(i))
		}
	}
	return ks
}

// genC04Large: maps grown past 1024 and 4096 keys (quick: 1030 and 4100 in bulk, 300 one Set at a time; thorough
// up to 8200) in ascending, descending, striped, outside-in or random key order, looked at through iterators at
// far positions, drained by Delete alone to a handful (observing at every threshold, and after every Delete from
// 40 entries down), regrown, drained below a quarter, regrown past the first size, cleared, used again — through
// the register and through a copy of the Map.
func genC04Large(g *G) {
	type lc struct {
		n    int
		bulk bool
	}
	cs := []lc{{1030, true}, {300, false}, {4100, true}, {130, true}}
	if g.Thorough() {
		cs = append(cs, lc{1025, true}, lc{2050, true}, lc{4097, true}, lc{520, true}, lc{600, false}, lc{260, true}, lc{65, false}, lc{8200, true})
	}
	off := g.Intn(12)
	for ci, c := range cs {
		N := c.n
		x := &c04gen{g: g, keys: map[int][]int{}, zero: map[int]bool{}, ids: map[int]int{}, its: map[int]int{}, old: map[int]bool{}}
		x.mode = []string{"nat", "rev", "flt", "div10"}[(ci+off)%4]
		x.cmp = c04cmp(x.mode)
		step := 1
		if x.mode == "div10" {
			step = 10
		}
		x.span = step * (2*N + 2)
		x.emit("reset %s", x.mode)
		x.mk(0, false)
		orders := 3 // the orders made of long arithmetic runs
		if !c.bulk {
			orders = 5
		}
		// move the size of map 0 to target along plan (grow: the next keys of plan; drain: the keys of plan that
		// are still stored, in plan order), stopping for a full observation at every point of lgPoints
		grow := func(plan []int, from, target, small int) {
			at := from
			for _, p := range lgPoints(target, small, false) {
				if p > at {
					x.run(0, plan, at, p, false, c.bulk)
					at = p
				}
			}
		}
		drain := func(order, target, small int) {
			id := x.ids[0]
			have := len(x.keys[id])
			// the stored keys in the order of the plan
			cur := append([]int(nil), x.keys[id]...)
			if x.mode == "rev" {
				for i, j := 0, len(cur)-1; i < j; i, j = i+1, j-1 {
					cur[i], cur[j] = cur[j], cur[i]
				}
			}
			idx := c04plan(g, have, 1, order) // 2i+1 -> position i of cur
			plan := make([]int, have)
			for i, v := range idx {
				plan[i] = cur[(v-1)/2]
			}
			pts := lgPoints(have, small, false)
			done := 0
			for i := len(pts) - 1; i >= 0; i-- {
				if pts[i] < have-done && pts[i] >= target {
					nd := have - pts[i]
					x.run(0, plan, done, nd, true, c.bulk)
					done = nd
				}
			}
			x.run(0, plan, done, have-target, true, c.bulk)
		}
		look := func() {
			ks := x.keys[x.ids[0]]
			if len(ks) == 0 {
				return
			}
			x.emit("first 0 0")
			x.emit("itnext 0")
			x.emit("itprev 0")
			x.emit("itprev 0")
			x.emit("last 1 0")
			x.emit("itprev 1")
			x.emit("itnext 1")
			x.emit("itnext 1")
			at := []int{len(ks) / 2, len(ks) - 1, 0, len(ks) / 3}
			if len(ks) > 1500 {
				at = at[:2] // every line prints the whole map
			}
			for _, i := range at {
				x.emit("seek 2 0 %d", x.ck(ks[i]-1))
				x.emit("seek 2 0 %d", ks[i])
				x.emit("itnext 2")
				x.emit("itprev 2")
				x.emit("itprev 2")
				x.emit("getok 0 %d", x.ck(ks[i]+1))
				x.emit("get 0 %d", ks[i])
			}
			x.its[0], x.its[1], x.its[2] = x.ids[0], x.ids[0], x.ids[0]
			x.old[0], x.old[1], x.old[2] = false, false, false
			// replace the value of a stored key (in div10 mode through an equivalent key), then look again
			k := ks[len(ks)/2]
			if x.mode == "div10" {
				k += 3
			}
			x.set(0, k)
			x.emit("itread 2")
			x.emit("seek 2 0 %d", k)
		}
		plan := c04plan(g, N+8, step, (ci+off)%orders)
		grow(plan, 0, N, 12)
		if x.mode == "flt" {
			// the special float keys join the large map (NaN first or last), are looked up, one is deleted again; the
			// rest stays for the drains and regrowths below
			sp := []int{c04fltLo, c04fltHi, c04fltLo + 1, 0, c04fltHi - 1, c04fltLo + 2, 0}
			if g.Chance(1, 2) {
				sp[0], sp[1] = sp[1], sp[0]
			}
			for _, k := range sp {
				x.emit("getok 0 %d", k)
				x.set(0, k)
				x.emit("seek 2 0 %d", k)
				x.emit("itprev 2")
			}
			x.del(0, sp[2])
			x.emit("seek 2 0 %d", sp[2])
		}
		look()
		x.emit("copy 1 0")
		x.ids[1] = x.ids[0]
		x.set(1, plan[N]) // through the copy
		x.del(1, plan[N])
		drain((ci+off/2)%orders, g.Intn(4), 40)
		look()
		x.emit("delete 0 %d", -7)
		// carry-over: regrow to a half, drain below a quarter, regrow past N, Clear, use again
		id := x.ids[0]
		rest := func() []int { // the keys of plan that are not stored, in plan order
			var out []int
			for _, k := range plan {
				if _, ok := x.find(id, k); !ok {
					out = append(out, k)
				}
			}
			return out
		}
		r := rest()
		have := len(x.keys[id])
		x.run(0, r, 0, N/2+1-have, false, c.bulk)
		x.emit("len 0")
		drain((ci+off/3+1)%orders, max(N/4-1, 1), 12)
		look()
		r = rest()
		have = len(x.keys[id])
		x.run(0, r, 0, min(len(r), N+3-have), false, c.bulk)
		look()
		x.emit("clear 0")
		x.keys[id] = nil
		x.edited(id)
		x.emit("itread 0")
		x.run(0, plan, 0, 33+g.Intn(8), false, false)
		drain(g.Intn(orders), 0, 40)
		x.emit("len 1")
		g.Each(x.ops)
	}
}

// genC04Succ: "set the successor, delete the two-child entry above it, set the successor again" (round-7 seeds: a
// lookup hint in the tree under the map that goes stale when the successor node is detached), at three alignments
// w.r.t. the blind re-execution's schedule.
func genC04Succ(g *G) {
	for i := 0; i < g.Scale(30, 200); i++ {
		n := 5 + g.Intn(8)
		for pad := 0; pad < 3; pad++ {
			ops := []string{"reset " + g.Pick("nat", "flt"), "mk 0 new"}
			v := 1
			for _, j := range g.R.Perm(n) {
				ops = append(ops, fmt.Sprintf("set 0 %d %d", 20+10*j, v))
				v++
			}
			for p := 0; p < pad; p++ {
				ops = append(ops, "delete 0 5") // absent: nothing happens
			}
			for round := 0; round < 3; round++ {
				j := g.Intn(n - 1)
				p, succ := 20+10*j, 30+10*j
				ops = append(ops, fmt.Sprintf("set 0 %d %d", succ, v), fmt.Sprintf("delete 0 %d", p),
					fmt.Sprintf("set 0 %d %d", succ, v+1), fmt.Sprintf("set 0 %d %d", p, v+2))
				v += 3
			}
			g.Case(ops)
		}
	}
}

func genC04(g *G) {
	genC04Large(g)
	genC04Succ(g)
	cases := g.Scale(1500, 20000)
	maxOps := g.Scale(90, 400)
	for c := 0; c < cases; c++ {
		x := &c04gen{g: g, keys: map[int][]int{}, zero: map[int]bool{}, ids: map[int]int{}, its: map[int]int{}, old: map[int]bool{}}
		x.mode = g.Pick("nat", "nat", "rev", "div10")
		if c%4 == 1 {
			x.mode = "flt" // a fixed quarter of the cases of every run
		}
		x.cmp = c04cmp(x.mode)
		x.span = 6 + g.Intn(g.Scale(60, 300))
		if x.mode == "div10" {
			x.span *= 5
		}
		x.emit("reset %s", x.mode)
		x.mk(0, g.Chance(1, 12))
		nops := 5 + g.Intn(maxOps)
		// Bulk preamble (second audit §1 C04): without it the maps hold ≤ 12 entries.  One case in three
		// works on a map of 20..200 (thorough: ..500) entries, filled in random, ascending, descending or
		// zig-zag key order (the last three make the scapegoat tree under the map rebuild).
		if c%3 == 0 && !x.zero[x.ids[0]] {
			count := 20 + g.Intn(g.Scale(181, 481))
			if g.Chance(1, 4) {
				count = 20 + g.Intn(45)
			}
			x.span = 2*count + g.Intn(count)
			step := 1
			if x.mode == "div10" {
				x.span *= 10
				step = 10
			}
			order := g.Intn(4)
			for j := 0; j < count; j++ {
				switch order {
				case 0:
					x.set(0, g.Intn(x.span))
				case 1:
					x.set(0, step*(2*j+1))
				case 2:
					x.set(0, step*(2*(count-j)+1))
				default:
					if j%2 == 0 {
						x.set(0, step*(j+1))
					} else {
						x.set(0, x.span-step*j)
					}
				}
			}
			// Drain (every second bulk case): Delete alone, in ascending, descending, random or outside-in key
			// order, down to a few entries or to nothing.  Only a long run of Deletes after growth takes the tree
			// under the map through its delete-side whole-tree rebuild (size below an eighth of the high-water
			// mark); the contents are observed after every Delete.
			// "touch every present key after a shrink" (round-6 seeds): delete most, but not enough for the
			// delete-side rebuild (the tree under the map rebuilds below an eighth of its high-water mark), so
			// that surviving keys lie deeper than the depth limit of the shrunk tree; then Set every survivor
			if c%6 == 3 {
				id := x.ids[0]
				ks := append([]int(nil), x.keys[id]...)
				g.R.Shuffle(len(ks), func(a, b int) { ks[a], ks[b] = ks[b], ks[a] })
				cut := len(ks) * (50 + g.Intn(36)) / 100
				for _, k := range ks[:cut] {
					x.del(0, k)
				}
				for _, k := range ks[cut:] {
					x.set(0, k)
				}
			}
			if c%6 == 0 {
				id := x.ids[0]
				leave := g.Intn(4)
				dorder := g.Intn(4)
				for j := 0; len(x.keys[id]) > leave; j++ {
					ks := x.keys[id]
					var k int
					switch dorder {
					case 0:
						k = ks[0]
					case 1:
						k = ks[len(ks)-1]
					case 2:
						k = ks[g.Intn(len(ks))]
					default:
						if j%2 == 0 {
							k = ks[0]
						} else {
							k = ks[len(ks)-1]
						}
					}
					x.del(0, k)
				}
				if len(x.keys[id]) > 0 {
					x.emit("first 0 0")
					x.its[0], x.old[0] = id, false
					for j := 0; j <= len(x.keys[id]); j++ {
						x.emit("itnext 0")
					}
				}
			}
			nops = len(x.ops) + 10 + g.Intn(g.Scale(40, 120))
		}
		for len(x.ops) < nops {
			reg := x.reg()
			switch k := g.Intn(100); {
			case k < 30:
				x.set(reg, x.key(reg))
			case k < 42:
				x.del(reg, x.key(reg))
			case k < 43:
				x.emit("clear %d", reg)
				if id := x.ids[reg]; !x.zero[id] {
					x.keys[id] = nil
					x.edited(id)
				}
			case k < 47:
				x.emit("%s %d %d", g.Pick("get", "getok"), reg, x.ck(x.key(reg)))
			case k < 49:
				x.emit("%s %d", g.Pick("len", "keys", "string"), reg)
			case k < 55:
				i := g.Intn(4)
				x.emit("%s %d %d", g.Pick("first", "last"), i, reg)
				x.its[i], x.old[i] = x.ids[reg], false
			case k < 63:
				i := g.Intn(4)
				x.emit("seek %d %d %d", i, reg, x.ck(x.key(reg)))
				x.its[i], x.old[i] = x.ids[reg], false
			case k < 68:
				if i, ok := x.iter(); ok {
					x.emit("itseek %d %d", i, x.ck(x.key(reg)))
					x.old[i] = false
				}
			case k < 86:
				if i, ok := x.liveIter(); ok {
					mv := g.Pick("itnext", "itprev")
					for m := 1 + g.Intn(5); m > 0; m-- {
						x.emit("%s %d", mv, i)
					}
				}
			case k < 88:
				if i, ok := x.iter(); ok {
					x.emit("itread %d", i)
				}
			case k < 91:
				// copies share contents: copy, then keep using both registers
				d := g.Intn(3)
				if d != reg {
					x.emit("copy %d %d", d, reg)
					x.ids[d] = x.ids[reg]
				}
			case k < 93:
				x.mk(g.Intn(3), g.Chance(1, 3))
			case k < 96:
				// full walk from one end
				i := g.Intn(4)
				n := len(x.keys[x.ids[reg]])
				if g.Chance(1, 2) {
					x.emit("first %d %d", i, reg)
					for j := 0; j <= n; j++ {
						x.emit("itnext %d", i)
					}
				} else {
					x.emit("last %d %d", i, reg)
					for j := 0; j <= n; j++ {
						x.emit("itprev %d", i)
					}
				}
				x.its[i], x.old[i] = x.ids[reg], false
			default:
				// delete while iterating, re-synchronising with Seek (omap's TestIterEdit)
				i := g.Intn(4)
				x.emit("first %d %d", i, reg)
				x.its[i], x.old[i] = x.ids[reg], false
				ks := append([]int(nil), x.keys[x.ids[reg]]...)
				for _, key := range ks {
					if g.Chance(1, 3) {
						x.del(reg, key)
						x.emit("itseek %d %d", i, key)
						x.old[i] = false
					} else {
						x.emit("itnext %d", i)
					}
				}
			}
		}
		// seeks around every stored key at the end
		reg := x.reg()
		ks := append([]int(nil), x.keys[x.ids[reg]]...)
		if len(ks) > 12 {
			// the two ends and a random sample of the middle
			pick := []int{ks[0], ks[1], ks[len(ks)-2], ks[len(ks)-1]}
			for len(pick) < 12 {
				pick = append(pick, ks[g.Intn(len(ks))])
			}
			ks = pick
		}
		for _, key := range ks {
			x.emit("seek 0 %d %d", reg, x.ck(key-1))
			x.emit("seek 0 %d %d", reg, key)
			x.emit("itprev 0")
			x.emit("seek 0 %d %d", reg, x.ck(key+1))
		}
		g.Case(x.ops)
	}
}

func init() {
	register(&Stream{Name: "C04", Gen: genC04, Blind: true, New: func(st *Stats) Runner { return &c04{st: st} }})
}
