package main

import (
	"fmt"
	"sort"
	"strings"

	"github.com/creachadair/mds/omap"
)

// C04: omap.Map histories with iterators, the zero Map, and copies of a Map.
//
// Map registers hold omap.Map[int,int] VALUES; `copy d s` copies the struct (the copies share
// the tree); `mk m new|zero` makes a fresh map.  Iterator registers are global.  An iterator
// whose map has been edited since it was positioned is stale: the harness (like the model)
// refuses to move or read it, only `itseek` revives it.
//
//	reset nat|rev|div10
//	mk <m> new|zero | copy <d> <s>
//	set <m> <k> <v> | delete <m> <k> | clear <m> | get|getok <m> <k> | len|keys|string <m>
//	first|last <i> <m> | seek <i> <m> <k> | itseek <i> <k> | itnext|itprev|itread <i>
//	  -> r=<result>;len=;keys=;str=;its=<i:valid:key:value of the iterators on this map>;all=<m:Len:Get(k) through every register>

type c04it struct {
	it    *omap.Iter[int, int]
	m     omap.Map[int, int]
	id    int
	stale bool
}

type c04 struct {
	mode string
	maps map[int]omap.Map[int, int]
	ids  map[int]int
	zero map[int]bool // by id
	its  map[int]*c04it
	next int
	st   *Stats
}

func c04cmp(mode string) func(a, b int) int {
	switch mode {
	case "rev":
		return func(a, b int) int { return c03cmpNat(b, a) }
	case "div10":
		return c03cmpDiv
	}
	return c03cmpNat
}

func c04iter(it *omap.Iter[int, int]) string {
	return fmt.Sprintf("%s:%d:%d", fmtBool(it.IsValid()), it.Key(), it.Value())
}

func (r *c04) obs(res string, m omap.Map[int, int], id, k int) string {
	var is []int
	for i, it := range r.its {
		if it.id == id {
			is = append(is, i)
		}
	}
	sort.Ints(is)
	var its []string
	for _, i := range is {
		if r.its[i].stale {
			its = append(its, fmt.Sprintf("%d:stale", i))
		} else {
			its = append(its, fmt.Sprintf("%d:%s", i, c04iter(r.its[i].it)))
		}
	}
	var regs []int
	for reg := range r.maps {
		regs = append(regs, reg)
	}
	sort.Ints(regs)
	var all []string
	for _, reg := range regs {
		all = append(all, fmt.Sprintf("%d:%d:%d", reg, r.maps[reg].Len(), r.maps[reg].Get(k)))
	}
	return fmt.Sprintf("r=%s;len=%d;keys=%s;str=%s;its=%s;all=%s", res, m.Len(), fmtInts(m.Keys()), m.String(),
		strings.Join(its, " "), strings.Join(all, " "))
}

// noteSize records the operations that act on a map of 20 or more / 100 or more entries.
func (r *c04) noteSize(op string, n int) {
	switch op {
	case "seek", "first", "last", "delete", "itnext", "itprev", "set":
		if n >= 100 {
			r.st.Note("len>=100:" + op)
		} else if n >= 20 {
			r.st.Note("len>=20:" + op)
		}
	}
}

func (r *c04) staleAll(id int) {
	for _, it := range r.its {
		if it.id == id {
			it.stale = true
		}
	}
}

func (r *c04) Exec(op []string) string {
	switch op[0] {
	case "reset":
		r.mode = "nat"
		if len(op) > 1 {
			r.mode = op[1]
		}
		r.maps = map[int]omap.Map[int, int]{}
		r.ids = map[int]int{}
		r.zero = map[int]bool{}
		r.its = map[int]*c04it{}
		r.next = 0
		return "-"
	case "mk":
		reg := atoi(op[1])
		id := r.next
		r.next++
		switch {
		case op[2] == "zero":
			var z omap.Map[int, int]
			r.maps[reg] = z
			r.zero[id] = true
			r.st.Note("zero-map")
		case r.mode == "nat":
			r.maps[reg] = omap.New[int, int]()
		default:
			r.maps[reg] = omap.NewFunc[int, int](c04cmp(r.mode))
		}
		r.ids[reg] = id
		return r.obs(fmt.Sprint(r.maps[reg].Len()), r.maps[reg], id, 0)
	case "copy":
		d, s := atoi(op[1]), atoi(op[2])
		src, ok := r.maps[s]
		if !ok {
			return "r=nomap"
		}
		r.maps[d] = src // struct copy
		r.ids[d] = r.ids[s]
		r.st.Note("copy")
		return r.obs(fmt.Sprint(src.Len()), r.maps[d], r.ids[d], 0)
	case "itseek", "itnext", "itprev", "itread":
		i := atoi(op[1])
		it, ok := r.its[i]
		if !ok {
			return "r=noreg"
		}
		k := 0
		res := ""
		switch op[0] {
		case "itseek":
			k = atoi(op[2])
			if it.stale {
				r.st.Note("re-seek-after-edit")
			}
			it.it.Seek(k)
			it.stale = false
			res = c04iter(it.it)
		case "itnext", "itprev":
			if it.stale {
				res = "stale"
				break
			}
			was := it.it.IsValid()
			r.noteSize(op[0], it.m.Len())
			if op[0] == "itnext" {
				it.it.Next()
			} else {
				it.it.Prev()
			}
			if was && !it.it.IsValid() {
				r.st.Note(op[0] + "-off-end")
			} else if !was {
				r.st.Note(op[0] + "-on-invalid")
			}
			res = c04iter(it.it)
		case "itread":
			if it.stale {
				res = "stale"
			} else {
				res = c04iter(it.it)
			}
		}
		return r.obs(res, it.m, it.id, k)
	}
	// map operations: <op> <m> … or first|last|seek <i> <m> …
	mi := 1
	if op[0] == "first" || op[0] == "last" || op[0] == "seek" {
		mi = 2
	}
	reg := atoi(op[mi])
	m, ok := r.maps[reg]
	if !ok {
		return "r=nomap"
	}
	id := r.ids[reg]
	r.noteSize(op[0], m.Len())
	if len(r.ids) > 1 {
		for other, oid := range r.ids {
			if other != reg && oid == id {
				r.st.Note("op-through-a-copy")
				break
			}
		}
	}
	switch op[0] {
	case "set":
		k, v := atoi(op[2]), atoi(op[3])
		_, had := m.GetOK(k)
		isNew := m.Set(k, v) // panics on the zero Map
		if had {
			r.st.Note("set-existing")
		}
		r.staleAll(id)
		return r.obs(fmtBool(isNew), m, id, k)
	case "delete":
		k := atoi(op[2])
		was := m.Delete(k)
		if was {
			r.staleAll(id)
		}
		return r.obs(fmtBool(was), m, id, k)
	case "clear":
		m.Clear()
		if !r.zero[id] {
			r.staleAll(id)
		}
		return r.obs("-", m, id, 0)
	case "get":
		k := atoi(op[2])
		return r.obs(fmt.Sprint(m.Get(k)), m, id, k)
	case "getok":
		k := atoi(op[2])
		v, ok := m.GetOK(k)
		return r.obs(fmtPop(v, ok), m, id, k)
	case "len":
		return r.obs(fmt.Sprint(m.Len()), m, id, 0)
	case "keys":
		return r.obs(fmtInts(m.Keys()), m, id, 0)
	case "string":
		return r.obs(m.String(), m, id, 0)
	case "first", "last", "seek":
		i := atoi(op[1])
		k := 0
		var it *omap.Iter[int, int]
		switch op[0] {
		case "first":
			it = m.First()
		case "last":
			it = m.Last()
		default:
			k = atoi(op[3])
			it = m.Seek(k)
			big := ""
			if m.Len() >= 20 {
				big = "len>=20:"
			}
			if !it.IsValid() {
				r.st.Note(big + "seek-past-the-end")
			} else if c04cmp(r.mode)(it.Key(), k) != 0 {
				r.st.Note(big + "seek-absent-key")
				if f := m.First(); f.Key() == it.Key() {
					r.st.Note(big + "seek-below-min")
				}
			} else {
				r.st.Note(big + "seek-present-key")
			}
		}
		r.its[i] = &c04it{it: it, m: m, id: id}
		return r.obs(c04iter(it), m, id, k)
	}
	return "bad-op"
}

// ---- generator ----

type c04gen struct {
	g    *G
	ops  []string
	mode string
	cmp  func(a, b int) int
	keys map[int][]int // state id -> stored keys in comparator order
	zero map[int]bool
	ids  map[int]int  // map register -> state id
	its  map[int]int  // iterator register -> state id
	old  map[int]bool // iterator register is stale
	next int
	nv   int
	span int
}

func (x *c04gen) emit(f string, a ...any) { x.ops = append(x.ops, fmt.Sprintf(f, a...)) }

func (x *c04gen) find(id, k int) (int, bool) {
	ks := x.keys[id]
	i := sort.Search(len(ks), func(i int) bool { return x.cmp(ks[i], k) >= 0 })
	return i, i < len(ks) && x.cmp(ks[i], k) == 0
}

func (x *c04gen) edited(id int) {
	for i, o := range x.its {
		if o == id {
			x.old[i] = true
		}
	}
}

func (x *c04gen) set(reg, k int) {
	id := x.ids[reg]
	if x.zero[id] && x.g.Chance(4, 5) {
		return // Set on the zero Map panics; once in a while is enough
	}
	x.nv++
	x.emit("set %d %d %d", reg, k, x.nv)
	if x.zero[id] {
		return
	}
	x.edited(id)
	i, ok := x.find(id, k)
	if ok {
		x.keys[id][i] = k
	} else {
		ks := append(x.keys[id], 0)
		copy(ks[i+1:], ks[i:])
		ks[i] = k
		x.keys[id] = ks
	}
}

func (x *c04gen) del(reg, k int) {
	x.emit("delete %d %d", reg, k)
	id := x.ids[reg]
	if i, ok := x.find(id, k); ok {
		x.keys[id] = append(x.keys[id][:i:i], x.keys[id][i+1:]...)
		x.edited(id)
	}
}

// key picks a present key (mostly), an equivalent one, an absent one, or one outside the range.
func (x *c04gen) key(reg int) int {
	g := x.g
	ks := x.keys[x.ids[reg]]
	switch c := g.Intn(10); {
	case c < 5 && len(ks) > 0:
		k := ks[g.Intn(len(ks))]
		if x.mode == "div10" && g.Chance(1, 2) {
			k = k/10*10 + g.Intn(10)
		}
		return k
	case c == 5:
		return -5 - g.Intn(20)
	case c == 6:
		return x.span + 5 + g.Intn(20)
	}
	return g.Intn(x.span)
}

func (x *c04gen) reg() int {
	regs := make([]int, 0, len(x.ids))
	for r := range x.ids {
		regs = append(regs, r)
	}
	sort.Ints(regs)
	return regs[x.g.Intn(len(regs))]
}

func (x *c04gen) iter() (int, bool) {
	if len(x.its) == 0 {
		return 0, false
	}
	is := make([]int, 0, len(x.its))
	for i := range x.its {
		is = append(is, i)
	}
	sort.Ints(is)
	return is[x.g.Intn(len(is))], true
}

// liveIter picks an iterator that is not stale (a stale one once in a while: both sides refuse).
func (x *c04gen) liveIter() (int, bool) {
	for try := 0; try < 6; try++ {
		i, ok := x.iter()
		if !ok {
			return 0, false
		}
		if !x.old[i] || x.g.Chance(1, 12) {
			return i, true
		}
	}
	return 0, false
}

func (x *c04gen) mk(reg int, zero bool) {
	kind := "new"
	if zero {
		kind = "zero"
	}
	x.emit("mk %d %s", reg, kind)
	x.ids[reg] = x.next
	x.zero[x.next] = zero
	x.keys[x.next] = nil
	x.next++
}

func genC04(g *G) {
	cases := g.Scale(1500, 20000)
	maxOps := g.Scale(90, 400)
	for c := 0; c < cases; c++ {
		x := &c04gen{g: g, keys: map[int][]int{}, zero: map[int]bool{}, ids: map[int]int{}, its: map[int]int{}, old: map[int]bool{}}
		x.mode = g.Pick("nat", "nat", "rev", "div10")
		x.cmp = c04cmp(x.mode)
		x.span = 6 + g.Intn(g.Scale(60, 300))
		if x.mode == "div10" {
			x.span *= 5
		}
		x.emit("reset %s", x.mode)
		x.mk(0, g.Chance(1, 12))
		nops := 5 + g.Intn(maxOps)
		// Bulk preamble (second audit §1 C04): without it the maps hold ≤ 12 entries.  One case in three
		// works on a map of 20..200 (thorough: ..500) entries, filled in random, ascending, descending or
		// zig-zag key order (the last three make the scapegoat tree under the map rebuild).
		if c%3 == 0 && !x.zero[x.ids[0]] {
			count := 20 + g.Intn(g.Scale(181, 481))
			if g.Chance(1, 4) {
				count = 20 + g.Intn(45)
			}
			x.span = 2*count + g.Intn(count)
			step := 1
			if x.mode == "div10" {
				x.span *= 10
				step = 10
			}
			order := g.Intn(4)
			for j := 0; j < count; j++ {
				switch order {
				case 0:
					x.set(0, g.Intn(x.span))
				case 1:
					x.set(0, step*(2*j+1))
				case 2:
					x.set(0, step*(2*(count-j)+1))
				default:
					if j%2 == 0 {
						x.set(0, step*(j+1))
					} else {
						x.set(0, x.span-step*j)
					}
				}
			}
			// Drain (every second bulk case): Delete alone, in ascending, descending, random or outside-in key
			// order, down to a few entries or to nothing.  Only a long run of Deletes after growth takes the tree
			// under the map through its delete-side whole-tree rebuild (size below an eighth of the high-water
			// mark); the contents are observed after every Delete.
			if c%6 == 0 {
				id := x.ids[0]
				leave := g.Intn(4)
				dorder := g.Intn(4)
				for j := 0; len(x.keys[id]) > leave; j++ {
					ks := x.keys[id]
					var k int
					switch dorder {
					case 0:
						k = ks[0]
					case 1:
						k = ks[len(ks)-1]
					case 2:
						k = ks[g.Intn(len(ks))]
					default:
						if j%2 == 0 {
							k = ks[0]
						} else {
							k = ks[len(ks)-1]
						}
					}
					x.del(0, k)
				}
				if len(x.keys[id]) > 0 {
					x.emit("first 0 0")
					x.its[0], x.old[0] = id, false
					for j := 0; j <= len(x.keys[id]); j++ {
						x.emit("itnext 0")
					}
				}
			}
			nops = len(x.ops) + 10 + g.Intn(g.Scale(40, 120))
		}
		for len(x.ops) < nops {
			reg := x.reg()
			switch k := g.Intn(100); {
			case k < 30:
				x.set(reg, x.key(reg))
			case k < 42:
				x.del(reg, x.key(reg))
			case k < 43:
				x.emit("clear %d", reg)
				if id := x.ids[reg]; !x.zero[id] {
					x.keys[id] = nil
					x.edited(id)
				}
			case k < 47:
				x.emit("%s %d %d", g.Pick("get", "getok"), reg, x.key(reg))
			case k < 49:
				x.emit("%s %d", g.Pick("len", "keys", "string"), reg)
			case k < 55:
				i := g.Intn(4)
				x.emit("%s %d %d", g.Pick("first", "last"), i, reg)
				x.its[i], x.old[i] = x.ids[reg], false
			case k < 63:
				i := g.Intn(4)
				x.emit("seek %d %d %d", i, reg, x.key(reg))
				x.its[i], x.old[i] = x.ids[reg], false
			case k < 68:
				if i, ok := x.iter(); ok {
					x.emit("itseek %d %d", i, x.key(reg))
					x.old[i] = false
				}
			case k < 86:
				if i, ok := x.liveIter(); ok {
					mv := g.Pick("itnext", "itprev")
					for m := 1 + g.Intn(5); m > 0; m-- {
						x.emit("%s %d", mv, i)
					}
				}
			case k < 88:
				if i, ok := x.iter(); ok {
					x.emit("itread %d", i)
				}
			case k < 91:
				// copies share contents: copy, then keep using both registers
				d := g.Intn(3)
				if d != reg {
					x.emit("copy %d %d", d, reg)
					x.ids[d] = x.ids[reg]
				}
			case k < 93:
				x.mk(g.Intn(3), g.Chance(1, 3))
			case k < 96:
				// full walk from one end
				i := g.Intn(4)
				n := len(x.keys[x.ids[reg]])
				if g.Chance(1, 2) {
					x.emit("first %d %d", i, reg)
					for j := 0; j <= n; j++ {
						x.emit("itnext %d", i)
					}
				} else {
					x.emit("last %d %d", i, reg)
					for j := 0; j <= n; j++ {
						x.emit("itprev %d", i)
					}
				}
				x.its[i], x.old[i] = x.ids[reg], false
			default:
				// delete while iterating, re-synchronising with Seek (omap's TestIterEdit)
				i := g.Intn(4)
				x.emit("first %d %d", i, reg)
				x.its[i], x.old[i] = x.ids[reg], false
				ks := append([]int(nil), x.keys[x.ids[reg]]...)
				for _, key := range ks {
					if g.Chance(1, 3) {
						x.del(reg, key)
						x.emit("itseek %d %d", i, key)
						x.old[i] = false
					} else {
						x.emit("itnext %d", i)
					}
				}
			}
		}
		// seeks around every stored key at the end
		reg := x.reg()
		ks := append([]int(nil), x.keys[x.ids[reg]]...)
		if len(ks) > 12 {
			// the two ends and a random sample of the middle
			pick := []int{ks[0], ks[1], ks[len(ks)-2], ks[len(ks)-1]}
			for len(pick) < 12 {
				pick = append(pick, ks[g.Intn(len(ks))])
			}
			ks = pick
		}
		for _, key := range ks {
			x.emit("seek 0 %d %d", reg, key-1)
			x.emit("seek 0 %d %d", reg, key)
			x.emit("itprev 0")
			x.emit("seek 0 %d %d", reg, key+1)
		}
		g.Case(x.ops)
	}
}

func init() {
	register(&Stream{Name: "C04", Gen: genC04, New: func(st *Stats) Runner { return &c04{st: st, mode: "nat"} }})
}
