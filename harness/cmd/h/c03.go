package main

import (
	"fmt"
	"os"
	"sort"
	"strconv"
	"strings"

	"github.com/creachadair/mds/stree"
)

// C03: stree.Cursor scripts over trees built by operation histories.
//
// Tree registers hold *stree.Tree[int], cursor registers hold *stree.Cursor[int]
// (possibly nil).  Any tree mutation drops every cursor register (a cursor on a
// modified tree is stale; the package gives it no meaning).
//
//	reset nat|div10
//	t new <r> <β> <keys…> | t add|replace|remove <r> <k> | t clear <r> | t clone <d> <s>
//	     -> r=<result>;len=<n>;shape=<pre-order with keys, walked with a cursor>
//	cursor <c> <r> <k> | root <c> <r> | nil <c> | clone <d> <s>
//	next|prev|left|right|up|min|max <c> | inorder <c> <stop or ->
//	     -> r=<result>;v=;k=;hl=;hr=;hp=;hn=;hv=;in=[Inorder];up=[ancestor keys];all=<reg:valid:key …>

type c03 struct {
	trees map[int]*stree.Tree[int]
	curs  map[int]*stree.Cursor[int]
	div10 bool
	st    *Stats
}

// comparators deliberately return magnitudes other than 1 (any sign-correct int is a legal result)
func c03cmpNat(a, b int) int { return 2 * (a - b) }

func c03cmpDiv(a, b int) int { return a/10 - b/10 }

func c03Ints(ss []string) []int {
	out := make([]int, 0, len(ss))
	for _, s := range ss {
		out = append(out, atoi(s))
	}
	return out
}

// c03Shape prints the pre-order shape with keys through Root/Left/Right/Up/Key and
// returns it with the height in nodes.
func c03Shape(t *stree.Tree[int]) (string, int) {
	var sb strings.Builder
	c := t.Root()
	if c == nil {
		return ".", 0
	}
	maxd := 0
	var walk func(d int)
	walk = func(d int) {
		if d > maxd {
			maxd = d
		}
		sb.WriteByte('(')
		sb.WriteString(strconv.Itoa(c.Key()))
		sb.WriteByte(' ')
		if c.HasLeft() {
			c.Left()
			walk(d + 1)
			c.Up()
		} else {
			sb.WriteByte('.')
		}
		sb.WriteByte(' ')
		if c.HasRight() {
			c.Right()
			walk(d + 1)
			c.Up()
		} else {
			sb.WriteByte('.')
		}
		sb.WriteByte(')')
	}
	walk(1)
	return sb.String(), maxd
}

func (r *c03) treeObs(res string, reg int) string {
	t := r.trees[reg]
	if t == nil {
		return "r=panic"
	}
	shape, h := c03Shape(t)
	if n := t.Len(); n >= 6 && h == n {
		r.st.Note("tree-is-a-path")
	} else if n >= 8 && h >= 6 && h >= n/2 {
		r.st.Note("tree-skewed")
	}
	return fmt.Sprintf("r=%s;len=%d;shape=%s", res, t.Len(), shape)
}

func (r *c03) curObs(res string, c int) string {
	if blindObs { // second, query-free execution (Stream.Blind)
		return "r=" + res
	}
	cur := r.curs[c]
	var in []int
	cur.Inorder(func(k int) bool { in = append(in, k); return true })
	var ups []int
	cl := cur.Clone()
	for cl.Valid() {
		cl.Up()
		if cl.Valid() {
			ups = append(ups, cl.Key())
		}
	}
	if cl := c10sizeClass(len(ups) + 1); cl != "" && cur.Valid() {
		r.st.Note("cursor-at-depth" + cl)
	}
	if cl := c10sizeClass(len(in)); cl != "" {
		r.st.Note("cursor-over-subtree" + cl)
	}
	regs := make([]int, 0, len(r.curs))
	for k := range r.curs {
		regs = append(regs, k)
	}
	sort.Ints(regs)
	var all []string
	for _, k := range regs {
		all = append(all, fmt.Sprintf("%d:%s:%d", k, fmtBool(r.curs[k].Valid()), r.curs[k].Key()))
	}
	return fmt.Sprintf("r=%s;v=%s;k=%d;hl=%s;hr=%s;hp=%s;hn=%s;hv=%s;in=%s;up=%s;all=%s", res,
		fmtBool(cur.Valid()), cur.Key(), fmtBool(cur.HasLeft()), fmtBool(cur.HasRight()), fmtBool(cur.HasParent()),
		fmtBool(cur.HasNext()), fmtBool(cur.HasPrev()), fmtInts(in), fmtInts(ups), strings.Join(all, " "))
}

func (r *c03) cmp() func(a, b int) int {
	if r.div10 {
		return c03cmpDiv
	}
	return c03cmpNat
}

func (r *c03) Exec(op []string) string {
	switch op[0] {
	case "reset":
		r.trees = map[int]*stree.Tree[int]{}
		r.curs = map[int]*stree.Cursor[int]{}
		r.div10 = len(op) > 1 && op[1] == "div10"
		return "-"
	case "t":
		r.curs = map[int]*stree.Cursor[int]{}
		reg := atoi(op[2])
		switch op[1] {
		case "new":
			β := atoi(op[3])
			if β < 0 || β > 1000 {
				return "r=panic"
			}
			r.trees[reg] = stree.New(β, r.cmp(), c03Ints(op[4:])...)
			return r.treeObs("-", reg)
		case "clone":
			src := r.trees[atoi(op[3])]
			if src == nil {
				return "r=panic"
			}
			r.trees[reg] = src.Clone()
			return r.treeObs("-", reg)
		}
		t := r.trees[reg]
		if t == nil {
			return "r=panic"
		}
		switch op[1] {
		case "add":
			return r.treeObs(fmtBool(t.Add(atoi(op[3]))), reg)
		case "replace":
			return r.treeObs(fmtBool(t.Replace(atoi(op[3]))), reg)
		case "remove":
			return r.treeObs(fmtBool(t.Remove(atoi(op[3]))), reg)
		case "clear":
			t.Clear()
			return r.treeObs("-", reg)
		}
		return "bad-op"
	case "cursor", "root":
		c := atoi(op[1])
		t := r.trees[atoi(op[2])]
		if t == nil {
			return "r=noreg"
		}
		if op[0] == "root" {
			r.curs[c] = t.Root()
		} else {
			k := atoi(op[3])
			r.curs[c] = t.Cursor(k)
			if cur := r.curs[c]; cur == nil {
				r.st.Note("cursor-absent-key")
			} else if cur.Key() != k {
				r.st.Note("cursor-reports-stored-representative")
			}
		}
		return r.curObs("-", c)
	case "nil":
		c := atoi(op[1])
		r.curs[c] = nil
		return r.curObs("-", c)
	case "clone":
		d := atoi(op[1])
		src, ok := r.curs[atoi(op[2])]
		if !ok {
			return "r=noreg"
		}
		r.curs[d] = src.Clone()
		r.st.Note("clone")
		return r.curObs("-", d)
	}
	c := atoi(op[1])
	cur, ok := r.curs[c]
	if !ok {
		return "r=noreg"
	}
	if cur == nil {
		r.st.Note("op-on-nil-cursor")
	} else if !blindObs && !cur.Valid() {
		r.st.Note("op-on-invalid-cursor")
	}
	res := "-"
	switch op[0] {
	case "next":
		if !blindObs { // labels only: no query in the query-free execution
			if cur.HasRight() {
				r.st.Note("next-descends")
			} else if cur.HasNext() {
				if cur.Clone().Up().HasLeft() && cur.Clone().Up().Left().Key() == cur.Key() {
					r.st.Note("next-is-parent")
				} else {
					r.st.Note("next-walks-up>1")
				}
			} else if cur.Valid() {
				r.st.Note("next-off-end")
			}
		}
		cur.Next()
	case "prev":
		if !blindObs { // labels only: no query in the query-free execution
			if cur.HasLeft() {
				r.st.Note("prev-descends")
			} else if cur.HasPrev() {
				if cur.Clone().Up().HasRight() && cur.Clone().Up().Right().Key() == cur.Key() {
					r.st.Note("prev-is-parent")
				} else {
					r.st.Note("prev-walks-up>1")
				}
			} else if cur.Valid() {
				r.st.Note("prev-off-end")
			}
		}
		cur.Prev()
	case "left":
		if !blindObs && cur.Valid() && !cur.HasLeft() {
			r.st.Note("left-invalidates")
		}
		cur.Left()
	case "right":
		if !blindObs && cur.Valid() && !cur.HasRight() {
			r.st.Note("right-invalidates")
		}
		cur.Right()
	case "up":
		if !blindObs && cur.Valid() && !cur.HasParent() {
			r.st.Note("up-from-root")
		}
		cur.Up()
	case "min":
		cur.Min()
	case "max":
		cur.Max()
	case "inorder":
		stop := -1
		if op[2] != "-" {
			stop = atoi(op[2])
		}
		var got []int
		cur.Inorder(func(k int) bool {
			got = append(got, k)
			return stop < 0 || len(got) < stop
		})
		res = fmtInts(got)
	default:
		return "bad-op"
	}
	return r.curObs(res, c)
}

// ---- generator ----

type c03gen struct {
	g    *G
	ops  []string
	keys map[int]map[int]int // tree reg -> class -> stored key
	div  bool
}

func (x *c03gen) class(k int) int {
	if x.div {
		return k / 10
	}
	return k
}
func (x *c03gen) add(reg, k int) {
	x.ops = append(x.ops, fmt.Sprintf("t add %d %d", reg, k))
	if _, ok := x.keys[reg][x.class(k)]; !ok {
		x.keys[reg][x.class(k)] = k
	}
}
func (x *c03gen) replace(reg, k int) {
	x.ops = append(x.ops, fmt.Sprintf("t replace %d %d", reg, k))
	x.keys[reg][x.class(k)] = k
}
func (x *c03gen) remove(reg, k int) {
	x.ops = append(x.ops, fmt.Sprintf("t remove %d %d", reg, k))
	delete(x.keys[reg], x.class(k))
}
func (x *c03gen) someKey(reg, span int) int {
	g := x.g
	if m := x.keys[reg]; len(m) > 0 && g.Chance(5, 6) {
		// a present class (map order is irrelevant: choose by rank)
		cs := make([]int, 0, len(m))
		for c := range m {
			cs = append(cs, c)
		}
		sort.Ints(cs)
		k := m[cs[g.Intn(len(cs))]]
		if x.div && g.Chance(1, 3) {
			k = k/10*10 + g.Intn(10) // an equivalent key
		}
		return k
	}
	return g.Intn(span+4) - 2
}

// build fills tree register reg with one of the key patterns.
func (x *c03gen) build(reg int) {
	g := x.g
	βs := []int{0, 1, 250, 500, 999, 1000, 1000, 1000, g.Intn(1001)}
	β := βs[g.Intn(len(βs))]
	n := g.Intn(g.Scale(40, 120))
	if g.Chance(1, 8) {
		n = g.Intn(4)
	}
	span := 2*n + 4
	if x.div {
		span *= 10
	}
	x.keys[reg] = map[int]int{}
	if g.Chance(1, 5) {
		// bulk New; exact duplicates only (which duplicate survives is not specified)
		var ks []string
		for i := 0; i < n; i++ {
			k := g.Intn(span)
			if c, ok := x.keys[reg][x.class(k)]; ok {
				k = c
			}
			x.keys[reg][x.class(k)] = k
			ks = append(ks, strconv.Itoa(k))
		}
		x.ops = append(x.ops, strings.TrimSpace(fmt.Sprintf("t new %d %d %s", reg, β, strings.Join(ks, " "))))
	} else {
		x.ops = append(x.ops, fmt.Sprintf("t new %d %d", reg, β))
		pat := g.Intn(5)
		step := 1
		if x.div {
			step = 10
		}
		for i := 0; i < n; i++ {
			var k int
			switch pat {
			case 0:
				k = g.Intn(span)
			case 1:
				k = i * step
			case 2:
				k = (n - i) * step
			case 3: // zig-zag: outside in
				if i%2 == 0 {
					k = (i / 2) * step
				} else {
					k = (n - i/2) * step
				}
			default: // inside out
				if i%2 == 0 {
					k = (n/2 + i/2) * step
				} else {
					k = (n/2 - 1 - i/2) * step
				}
			}
			if x.div {
				k += g.Intn(10)
			}
			if g.Chance(1, 10) {
				x.replace(reg, k)
			} else {
				x.add(reg, k)
			}
		}
	}
	// removals (two-child removals reshape the tree without rebalancing when β = 1000)
	for m := g.Intn(n/3 + 1); m > 0; m-- {
		x.remove(reg, x.someKey(reg, span))
	}
	if g.Chance(1, 20) {
		x.ops = append(x.ops, fmt.Sprintf("t clear %d", reg))
		x.keys[reg] = map[int]int{}
	}
}

func (x *c03gen) script(ntrees int) {
	g := x.g
	const ncur = 4
	have := map[int]bool{}
	start := func(c int) {
		reg := g.Intn(ntrees)
		span := 2 * len(x.keys[reg])
		if x.div {
			span *= 10
		}
		switch k := g.Intn(25); {
		case k < 16:
			x.ops = append(x.ops, fmt.Sprintf("cursor %d %d %d", c, reg, x.someKey(reg, span)))
		case k < 24:
			x.ops = append(x.ops, fmt.Sprintf("root %d %d", c, reg))
		default:
			x.ops = append(x.ops, fmt.Sprintf("nil %d", c))
		}
		have[c] = true
	}
	start(0)
	moves := 1 + g.Intn(40)
	weights := []string{"next", "next", "next", "prev", "prev", "prev", "left", "left", "right", "right", "up", "up", "up", "min", "max"}
	for i := 0; i < moves; i++ {
		c := g.Intn(ncur)
		if !have[c] {
			if g.Chance(1, 2) {
				start(c)
			} else {
				src := 0
				for s := range have {
					if g.Chance(1, 2) {
						src = s
					}
				}
				if !have[src] {
					src = 0
				}
				x.ops = append(x.ops, fmt.Sprintf("clone %d %d", c, src))
				have[c] = true
			}
			continue
		}
		switch k := g.Intn(20); {
		case k == 0 || k >= 16:
			start(c)
		case k == 1:
			d := g.Intn(ncur)
			x.ops = append(x.ops, fmt.Sprintf("clone %d %d", d, c))
			have[d] = true
		case k == 2:
			stop := "-"
			if g.Chance(1, 2) {
				stop = strconv.Itoa(g.Intn(5))
			}
			x.ops = append(x.ops, fmt.Sprintf("inorder %d %s", c, stop))
		case k == 3:
			// a streak in one direction
			mv := g.Pick("next", "prev")
			for m := 1 + g.Intn(6); m > 0; m-- {
				x.ops = append(x.ops, fmt.Sprintf("%s %d", mv, c))
			}
		default:
			x.ops = append(x.ops, fmt.Sprintf("%s %d", weights[g.Intn(len(weights))], c))
		}
	}
}

// c03Perms calls f with every permutation of 1..n.
func c03Perms(n int, f func([]int)) {
	p := make([]int, n)
	for i := range p {
		p[i] = i + 1
	}
	var rec func(k int)
	rec = func(k int) {
		if k == n {
			f(p)
			return
		}
		for i := k; i < n; i++ {
			p[k], p[i] = p[i], p[k]
			rec(k + 1)
			p[k], p[i] = p[i], p[k]
		}
	}
	rec(0)
}

// genC03Large: cursors on DEEP trees (β = 1000: ascending, descending, zig-zag and "hook" insertion orders give
// paths of 40 to 140 nodes, thorough to 520 — a cursor at the bottom carries a path of that many ancestors; Up all
// the way, Next/Prev that walk up ALL the levels (hook: the successor/predecessor of the bottom node is the root), Min/Max that descend all the way, clones taken at depth and moved apart)
// and on LARGE balanced trees (one bulk New of 1030 keys, thorough 4100: far keys, walks across the root, stopped
// Inorder), before and after the tree was drained below a quarter and regrown.
func genC03Large(g *G) {
	type lc struct {
		n   int
		pat string
	}
	cs := []lc{{40, "asc"}, {70, "zigzag"}, {100, "hookasc"}, {140, "hookdesc"}, {1030, "bulk"}}
	if g.Thorough() {
		cs = append(cs, lc{33, "zigzag"}, lc{65, "asc"}, lc{130, "zigzag"}, lc{260, "hookasc"}, lc{520, "zigzag"}, lc{300, "desc"}, lc{67, "hookdesc"}, lc{520, "hookdesc"}, lc{4100, "bulk"}, lc{260, "bulk"})
	}
	for _, c := range cs {
		N := c.n
		ops := []string{"reset nat"}
		add := func(format string, a ...any) { ops = append(ops, fmt.Sprintf(format, a...)) }
		key := func(i int) int { // the i-th key inserted
			switch c.pat {
			case "hookasc": // a large key first, then ascending below it: the successor of the bottom node is the root
				if i == 0 {
					return 2 * (N + 5)
				}
				return 2 * i
			case "hookdesc": // mirrored: the predecessor of the bottom node is the root
				if i == 0 {
					return 0
				}
				return 2 * (N + 5 - i)
			case "desc":
				return 2 * (N - i)
			case "zigzag":
				if i%2 == 1 {
					return 2 * (N - i/2)
				}
				return 2 * (i / 2)
			}
			return 2 * i
		}
		script := func(deep, other int) {
			// deep: the key of a deepest node (the last one inserted); other: a key far from it
			add("cursor 0 0 %d", deep)
			add("clone 1 0")
			add("clone 2 0")
			add("next 1")
			add("next 1")
			add("prev 2")
			add("prev 2")
			add("inorder 1 3")
			add("clone 3 0")
			for i := 0; i < 4; i++ {
				add("up 3")
			}
			add("left 3")
			add("clone 3 0")
			add("up 3")
			add("right 3")
			add("root 3 0")
			add("min 3")
			add("prev 3")
			add("root 3 0")
			add("max 3")
			add("next 3")
			add("cursor 3 0 %d", other)
			add("next 3")
			add("prev 3")
			add("prev 3")
			add("cursor 3 0 %d", deep+1) // absent
		}
		if c.pat == "bulk" {
			perm := g.R.Perm(N)
			line := fmt.Sprintf("t new 0 %d", []int{0, 250, 999}[g.Intn(3)])
			for _, i := range perm {
				line += " " + strconv.Itoa(2*i)
			}
			add("%s", line)
			script(2*(N/2), 2*(N-1))
			script(0, 2*(N/3))
			// walk across the tree from the middle in both directions
			add("cursor 0 0 %d", N)
			for i := 0; i < 12; i++ {
				add("next 0")
			}
			add("cursor 1 0 %d", N)
			for i := 0; i < 12; i++ {
				add("prev 1")
			}
			// drain below a quarter (every Remove drops the cursors), look again, regrow
			for i := 0; i < N-N/5; i++ {
				if i%40 == 0 && i > 0 {
					add("cursor 0 0 %d", 2*perm[N-1])
					add("up 0")
				}
				add("t remove 0 %d", 2*perm[i])
			}
			script(2*perm[N-1], 2*perm[N-2])
			for i := 0; i < 40; i++ {
				add("t add 0 %d", 2*perm[i]+1)
			}
			script(2*perm[0]+1, 2*perm[N-3])
		} else {
			add("t new 0 1000")
			for i := 0; i < N; i++ {
				add("t add 0 %d", key(i))
			}
			deep := key(N - 1)
			script(deep, key(0))
			// all the way up from the bottom, and one step further
			add("cursor 0 0 %d", deep)
			for i := 0; i <= N; i++ {
				add("up 0")
			}
			add("t clone 1 0")
			// drain below a quarter from the top of the path (the bottom stays deep), look, regrow deeper
			for i := 0; i < N-N/5; i++ {
				add("t remove 0 %d", key(i))
			}
			script(deep, key(N-2))
			for i := 0; i < N/2; i++ {
				add("t add 0 %d", key(i))
			}
			script(key(N/2-1), deep)
			add("cursor 1 1 %d", deep) // the clone of the tree is as deep as before
			add("up 1")
			add("min 1")
		}
		g.Each(ops)
	}
}

func genC03(g *G) {
	genC03Large(g)
	// exhaustive small scope: every search-tree shape with up to N keys (β = 1000: the tree
	// is the plain insertion tree), every key present or absent, every single move from
	// there, and the full forward and backward walks
	maxN := g.Scale(5, 8)
	if len(os.Args) > 3 && atoi(os.Args[3])%1000 != 0 {
		maxN = -1 // the check runs several generator shards (seed*1000+shard): enumerate in shard 0 only
	}
	for n := 0; n <= maxN; n++ {
		seen := map[string]bool{}
		c03Perms(n, func(p []int) {
			// distinct shapes only: the insertion tree is determined by the pre-order, and
			// two permutations give the same tree iff they build the same shape; cheap key:
			// simulate
			key := c03ShapeKey(p)
			if seen[key] {
				return
			}
			seen[key] = true
			ops := []string{"reset nat", "t new 0 1000"}
			for _, k := range p {
				ops = append(ops, fmt.Sprintf("t add 0 %d", 2*k))
			}
			for k := 1; k <= 2*n+1; k++ {
				ops = append(ops, fmt.Sprintf("cursor 0 0 %d", k))
				for _, mv := range []string{"next", "prev", "left", "right", "up", "min", "max"} {
					ops = append(ops, "clone 1 0", mv+" 1")
				}
			}
			ops = append(ops, "root 2 0", "min 2")
			for i := 0; i <= n; i++ {
				ops = append(ops, "next 2")
			}
			ops = append(ops, "root 3 0", "max 3")
			for i := 0; i <= n; i++ {
				ops = append(ops, "prev 3")
			}
			g.Case(ops)
		})
	}
	cases := g.Scale(2000, 12000)
	for i := 0; i < cases; i++ {
		x := &c03gen{g: g, keys: map[int]map[int]int{}, div: g.Chance(1, 3)}
		if x.div {
			x.ops = append(x.ops, "reset div10")
		} else {
			x.ops = append(x.ops, "reset nat")
		}
		x.build(0)
		ntrees := 1
		if g.Chance(1, 4) {
			if g.Chance(1, 2) {
				x.ops = append(x.ops, "t clone 1 0")
				x.keys[1] = map[int]int{}
				for c, k := range x.keys[0] {
					x.keys[1][c] = k
				}
				for m := g.Intn(4); m > 0; m-- {
					x.remove(1, x.someKey(1, 2*len(x.keys[1])))
				}
			} else {
				x.build(1)
			}
			ntrees = 2
		}
		x.script(ntrees)
		if g.Chance(1, 6) {
			// edit, then fresh cursors
			reg := g.Intn(ntrees)
			if g.Chance(1, 2) {
				x.remove(reg, x.someKey(reg, 2*len(x.keys[reg])))
			} else {
				x.add(reg, x.someKey(reg, 2*len(x.keys[reg]))+1)
			}
			x.script(ntrees)
		}
		g.Case(x.ops)
	}
}

// c03ShapeKey is the shape of the plain insertion tree of p (pre-order with keys).
func c03ShapeKey(p []int) string {
	type nd struct {
		k    int
		l, r *nd
	}
	var root *nd
	for _, k := range p {
		pp := &root
		for *pp != nil {
			if k < (*pp).k {
				pp = &(*pp).l
			} else {
				pp = &(*pp).r
			}
		}
		*pp = &nd{k: k}
	}
	var sb strings.Builder
	var walk func(n *nd)
	walk = func(n *nd) {
		if n == nil {
			sb.WriteByte('.')
			return
		}
		sb.WriteString(strconv.Itoa(n.k))
		walk(n.l)
		walk(n.r)
	}
	walk(root)
	return sb.String()
}

func init() {
	register(&Stream{Name: "C03", Gen: genC03, Blind: true, New: func(st *Stats) Runner {
		return &c03{trees: map[int]*stree.Tree[int]{}, curs: map[int]*stree.Cursor[int]{}, st: st}
	}})
}
