// Command h is the correspondence harness: it generates operation histories,
// runs them against the real creachadair/mds code in-process and prints, per
// operation, the observation made.  See /verif/DESIGN.md §2.
package main

import (
	"bufio"
	"encoding/json"
	"fmt"
	"hash/fnv"
	"math/rand"
	"os"
	"sort"
	"strconv"
	"strings"
	"sync"
	"time"
)

// A Runner interprets the operations of one stream against the implementation.
// Exec is called with the tokens of one op line and returns the observation.
// A line whose first token is "reset" starts a new history.
type Runner interface {
	Exec(op []string) string
}

// A Stream couples a generator of histories with an interpreter.
type Stream struct {
	Name string
	// Blind: every history is executed a second time on a fresh runner WITHOUT the queries the observation makes
	// after each operation (blindObs is set; the runner's observation function then returns at once); only the last
	// operation is observed.  Queries are read-only, so the last observation must be the same either way; if it is
	// not, it is reported as `<loud observation> BLIND-DIFFERS:<blind observation>` (the driver judges it `bad`).
	// This is what sees state that a query leaves behind for a later operation (memoised answers): a harness that
	// asks every query after every operation keeps such state fresh and can never see it go stale.
	Blind bool
	// Gen emits cases (each a list of op lines beginning with a reset line).
	Gen func(g *G)
	New func(st *Stats) Runner
}

var streams = map[string]*Stream{}

// blindObs: set while the second, query-free execution of a history runs (see Stream.Blind).
var blindObs bool

func register(s *Stream) { streams[s.Name] = s }

// G is the generator context: one PRNG, a tier, and the sink for cases.
type G struct {
	R     *rand.Rand
	Tier  string
	emit  func([]string)
	Cases int
	// shard index / number of shards of this generator process (see Shard)
	shard, shards int
	fixed         int // number of Each calls so far
}

// Shard and Shards tell a generator which part of an exhaustive or fixed enumeration this process is to
// emit.  tools/check.py starts one generator process per shard, `h gen <stream> <VERIF_SEED*1000+shard> <tier>`,
// with VERIF_SHARDS=<number of shards> in the environment.  The random part of a generator differs per shard
// because the seed does; an exhaustive or fixed part must be divided (`if i%g.Shards() == g.Shard()`), or
// emitted by shard 0 only (`g.Shard() == 0`), otherwise the same cases are run, and counted in the evidence,
// once per shard.  Started by hand with an arbitrary seed (seed%1000 not below the number of shards) the
// process is the only shard and emits everything.
func (g *G) Shard() int { return g.shard }
func (g *G) Shards() int {
	if g.shards < 1 {
		return 1
	}
	return g.shards
}

// Mine reports whether item i of an enumeration belongs to this shard.
func (g *G) Mine(i int) bool { return i%g.Shards() == g.Shard() }

// Each is Case for the cases of an exhaustive or fixed enumeration: the calls are dealt round-robin to the
// shards, so that every such case is emitted (run, counted) by exactly one generator process of a check.
func (g *G) Each(ops []string) {
	if g.Mine(g.fixed) {
		g.Case(ops)
	}
	g.fixed++
}

// setShard derives shard and shards from the seed argument and VERIF_SHARDS (default: 2 quick, 8 thorough,
// the defaults of tools/check.py).
func (g *G) setShard(seed int64) {
	n := g.Scale(2, 8)
	if v, err := strconv.Atoi(os.Getenv("VERIF_SHARDS")); err == nil && v > 0 {
		n = v
	}
	sh := int(((seed % 1000) + 1000) % 1000)
	if sh >= n {
		sh, n = 0, 1
	}
	g.shard, g.shards = sh, n
}

func (g *G) Thorough() bool { return g.Tier == "thorough" }

// Scale returns q for the quick tier and t for thorough.
func (g *G) Scale(q, t int) int {
	if g.Thorough() {
		return t
	}
	return q
}
func (g *G) Case(ops []string) { g.Cases++; g.emit(ops) }
func (g *G) Intn(n int) int {
	if n <= 0 {
		return 0
	}
	return g.R.Intn(n)
}
func (g *G) Chance(num, den int) bool { return g.R.Intn(den) < num }
func (g *G) Pick(ss ...string) string { return ss[g.R.Intn(len(ss))] }

// Stats accumulates what a run covered.
type Stats struct {
	Cases      int            `json:"cases"`
	Ops        int            `json:"ops"`
	OpMix      map[string]int `json:"op_mix"`
	Branches   map[string]int `json:"branches"`
	Panics     map[string]int `json:"panics"`
	Hangs      int            `json:"hangs"`
	Nontrivial int            `json:"distinct_nontrivial"`
	// Hashes of the distinct non-trivial cases (omitted when there are too many): check.py unions them across the
	// generator shards so that a case produced by two shards is counted once.
	Hashes     []uint64 `json:"nontrivial_hashes,omitempty"`
	MaxCaseLen int      `json:"max_case_len"`
	caseTags   int
	seen       map[uint64]bool
	// a history that was given up as hung keeps running in its goroutine and may still call Note / record a panic
	// while the main goroutine accounts for the skipped lines: the maps are guarded
	mu sync.Mutex
}

func newStats() *Stats {
	return &Stats{OpMix: map[string]int{}, Branches: map[string]int{}, Panics: map[string]int{}, seen: map[uint64]bool{}}
}

// Note records that the current case reached the named branch.
func (s *Stats) Note(tag string) { s.mu.Lock(); s.Branches[tag]++; s.caseTags++; s.mu.Unlock() }

func (s *Stats) endCase(ops []string) {
	if len(ops) == 0 {
		return
	}
	s.mu.Lock()
	defer s.mu.Unlock()
	s.Cases++
	if len(ops) > s.MaxCaseLen {
		s.MaxCaseLen = len(ops)
	}
	if s.caseTags > 0 {
		h := fnv.New64a()
		for _, o := range ops {
			h.Write([]byte(o))
			h.Write([]byte{'\n'})
		}
		k := h.Sum64()
		if !s.seen[k] {
			s.seen[k] = true
			s.Nontrivial++
			if s.Nontrivial <= 400000 {
				s.Hashes = append(s.Hashes, k)
			} else {
				s.Hashes = nil
			}
		}
	}
	s.caseTags = 0
}

// safeExec runs one op, mapping a panic to a canonical observation.
func safeExec(r Runner, op []string, st *Stats) (obs string) {
	defer func() {
		if x := recover(); x != nil {
			obs = "panic:" + panicClass(x)
			st.mu.Lock()
			st.Panics[obs]++
			st.mu.Unlock()
		}
	}()
	return r.Exec(op)
}

func panicClass(x any) string {
	s := fmt.Sprint(x)
	switch {
	case strings.Contains(s, "invalid cursor"):
		return "invalid-cursor"
	case strings.Contains(s, "index out of range"):
		return "index"
	case strings.Contains(s, "slice bounds out of range"):
		return "bounds"
	case strings.Contains(s, "divide by zero"):
		return "divzero"
	case strings.Contains(s, "nil pointer"):
		return "nil"
	case strings.Contains(s, "nil map"):
		return "nilmap"
	}
	s = strings.Map(func(r rune) rune {
		if r == ' ' || r == '\t' || r == '\n' {
			return '_'
		}
		return r
	}, s)
	if len(s) > 60 {
		s = s[:60]
	}
	return s
}

// runCase executes one history with a watchdog, so that a hang in the code
// under test is an observation ("hang") and not a stuck check.
func runCase(s *Stream, ops []string, st *Stats, out *bufio.Writer, timeout time.Duration) {
	if st.Hangs >= 1 {
		// The implementation under test hung (a hang costs a full watchdog period and leaves a spinning or
		// blocked goroutine behind, and one hang already decides the run): do not execute further histories,
		// say so on every line.
		for _, line := range ops {
			fmt.Fprintf(out, "%s\tskipped-after-hangs\n", line)
			st.Ops++
		}
		st.endCase(ops)
		return
	}
	obs := make([]string, len(ops))
	done := make(chan struct{})
	progress := make(chan int, len(ops)+1)
	go func() {
		defer close(done)
		r := s.New(st)
		for i, line := range ops {
			toks := strings.Fields(line)
			obs[i] = safeExec(r, toks, st)
			progress <- i
		}
	}()
	completed := -1
	timer := time.NewTimer(timeout)
loop:
	for {
		select {
		case i := <-progress:
			completed = i
			// the watchdog measures the time since the last operation finished, not the length of the history
			if !timer.Stop() {
				select {
				case <-timer.C:
				default:
				}
			}
			timer.Reset(timeout)
		case <-done:
			for len(progress) > 0 {
				completed = <-progress
			}
			break loop
		case <-timer.C:
			st.Hangs++
			break loop
		}
	}
	timer.Stop()
	if s.Blind && completed == len(ops)-1 && len(ops) >= 3 && st.Hangs == 0 {
		// the whole history and up to three of its proper prefixes (so that operations in the middle — in particular
		// the queries that are operations of the history themselves — also get to be the one observed at the end)
		ends := []int{len(ops) - 1}
		for k := 1; k <= 3 && len(ops) > 4; k++ {
			e := 2 + (len(ops)*k*2654435761+k*97)%(len(ops)-3)
			if e < len(ops)-1 && !slicesContains(ends, e) {
				ends = append(ends, e)
			}
		}
		for _, last := range ends {
			res := make(chan string, 1)
			go func() {
				st2 := newStats()
				r2 := s.New(st2)
				o := ""
				for i, line := range ops[:last+1] {
					// mostly blind: the queries are still made after about one operation in three (their answers
					// are thrown away), so that a query can leave something behind that the following, unobserved
					// operations then let go stale
					blindObs = i < last && (i*7+last)%3 != 0
					o = safeExec(r2, strings.Fields(line), st2)
				}
				blindObs = false
				res <- o
			}()
			differs := ""
			select {
			case o := <-res:
				if o != obs[last] {
					differs = o
				}
			case <-time.After(timeout):
				blindObs = false
				st.Hangs++
				differs = "hang"
			}
			if differs != "" {
				obs[last] += " BLIND-DIFFERS:" + differs
				break
			}
		}
	}
	for i, line := range ops {
		o := "skipped"
		if i <= completed {
			o = obs[i]
		} else if i == completed+1 {
			o = "hang"
		}
		fmt.Fprintf(out, "%s\t%s\n", line, o)
		st.Ops++
		if f := strings.Fields(line); len(f) > 0 {
			st.mu.Lock()
			st.OpMix[f[0]]++
			st.mu.Unlock()
		}
	}
	st.endCase(ops)
}

func slicesContains(xs []int, x int) bool {
	for _, y := range xs {
		if y == x {
			return true
		}
	}
	return false
}

func readCases(sc *bufio.Scanner, f func([]string)) {
	var cur []string
	for sc.Scan() {
		line := strings.TrimRight(sc.Text(), "\r\n")
		if line == "" || strings.HasPrefix(line, "#") {
			continue
		}
		if i := strings.IndexByte(line, '\t'); i >= 0 {
			line = line[:i]
		}
		if strings.HasPrefix(line, "reset") && len(cur) > 0 {
			f(cur)
			cur = nil
		}
		cur = append(cur, line)
	}
	if len(cur) > 0 {
		f(cur)
	}
}

func usage() {
	var names []string
	for n := range streams {
		names = append(names, n)
	}
	sort.Strings(names)
	fmt.Fprintf(os.Stderr, "usage: h gen <stream> <seed> <tier> | h run <stream> [statsfile] < ops\nstreams: %s\n", strings.Join(names, " "))
	os.Exit(2)
}

func main() {
	if len(os.Args) < 3 {
		usage()
	}
	s := streams[os.Args[2]]
	if s == nil {
		usage()
	}
	out := bufio.NewWriterSize(os.Stdout, 1<<20)
	defer out.Flush()
	switch os.Args[1] {
	case "gen":
		if len(os.Args) < 5 {
			usage()
		}
		seed, _ := strconv.ParseInt(os.Args[3], 10, 64)
		g := &G{R: rand.New(rand.NewSource(seed)), Tier: os.Args[4]}
		g.setShard(seed)
		g.emit = func(ops []string) {
			for _, o := range ops {
				out.WriteString(o)
				out.WriteByte('\n')
			}
		}
		s.Gen(g)
	case "run":
		st := newStats()
		sc := bufio.NewScanner(os.Stdin)
		sc.Buffer(make([]byte, 1<<20), 1<<26)
		// generous: on a loaded machine a slow operation must not be mistaken for a hang (a false alarm on the
		// unchanged tree); a real hang costs one such period per run (see runCase)
		timeout := 120 * time.Second
		if v := os.Getenv("VERIF_CASE_TIMEOUT_MS"); v != "" {
			if ms, err := strconv.Atoi(v); err == nil {
				timeout = time.Duration(ms) * time.Millisecond
			}
		}
		readCases(sc, func(ops []string) { runCase(s, ops, st, out, timeout) })
		if len(os.Args) > 3 {
			b, _ := json.MarshalIndent(st, "", " ")
			os.WriteFile(os.Args[3], b, 0o644)
		}
	default:
		usage()
	}
}

// ---- helpers shared by the streams ----

func atoi(s string) int { n, _ := strconv.Atoi(s); return n }

func fmtInts(vs []int) string {
	var sb strings.Builder
	sb.WriteByte('[')
	for i, v := range vs {
		if i > 0 {
			sb.WriteByte(' ')
		}
		sb.WriteString(strconv.Itoa(v))
	}
	sb.WriteByte(']')
	return sb.String()
}

func fmtBool(b bool) string {
	if b {
		return "T"
	}
	return "F"
}

func fmtPop(v int, ok bool) string { return fmt.Sprintf("%d,%s", v, fmtBool(ok)) }
