package main

import (
	"fmt"
	"strings"
	"unicode/utf8"

	"github.com/creachadair/mds/mstr"
)

// C20.split: mstr.Split and mstr.Lines against the Lean model
// (Model/MstrSplit.lean).  Byte strings travel as x<hex>; the observation is
// "n=<len> nil=<T|F> p=[x.. x..]".

type x1c20split struct{ st *Stats }

func x1c20Fmt(ps []string) string {
	var sb strings.Builder
	fmt.Fprintf(&sb, "n=%d nil=%s p=[", len(ps), fmtBool(ps == nil))
	for i, p := range ps {
		if i > 0 {
			sb.WriteByte(' ')
		}
		sb.WriteString(c20Hex([]byte(p)))
	}
	sb.WriteByte(']')
	return sb.String()
}

// x1c20Overlapping reports whether two occurrences of sep in s overlap.
func x1c20Overlapping(s, sep string) bool {
	if len(sep) < 2 {
		return false
	}
	for i := 0; i+len(sep) <= len(s); i++ {
		if s[i:i+len(sep)] != sep {
			continue
		}
		for j := i + 1; j < i+len(sep) && j+len(sep) <= len(s); j++ {
			if s[j:j+len(sep)] == sep {
				return true
			}
		}
	}
	return false
}

func (r *x1c20split) noteSplit(s, sep string) {
	switch {
	case s == "":
		r.st.Note("split-empty-input")
		return
	case sep == "":
		r.st.Note("split-empty-sep")
		switch {
		case !utf8.ValidString(s):
			r.st.Note("explode-invalid-utf8")
		case len(s) != utf8.RuneCountInString(s):
			r.st.Note("explode-multibyte")
		default:
			r.st.Note("explode-ascii")
		}
		return
	}
	// classification by naive scanning (not by the function under test)
	occ := 0
	for i := 0; i+len(sep) <= len(s); {
		if s[i:i+len(sep)] == sep {
			occ++
			i += len(sep)
		} else {
			i++
		}
	}
	switch {
	case len(sep) > len(s):
		r.st.Note("split-sep-longer-than-s")
	case sep == s:
		r.st.Note("split-sep-equals-s")
	}
	switch occ {
	case 0:
		r.st.Note("split-no-occurrence")
	case 1:
		r.st.Note("split-one-occurrence")
	default:
		r.st.Note("split-many-occurrences")
	}
	if occ > 0 {
		if strings.HasSuffix(s, sep) {
			r.st.Note("split-trailing-sep")
		}
		if strings.HasPrefix(s, sep) {
			r.st.Note("split-leading-sep")
		}
		if strings.Contains(s, sep+sep) {
			r.st.Note("split-adjacent-seps")
		}
		if x1c20Overlapping(s, sep) {
			r.st.Note("split-overlapping")
		}
	}
}

func (r *x1c20split) noteLines(s string) {
	switch {
	case s == "":
		r.st.Note("lines-empty")
	case s == "\n":
		r.st.Note("lines-only-nl")
	case strings.HasSuffix(s, "\n\n"):
		r.st.Note("lines-two-trailing-nl")
	case strings.HasSuffix(s, "\n"):
		r.st.Note("lines-trailing-nl")
	case strings.Contains(s, "\n"):
		r.st.Note("lines-inner-nl-only")
	default:
		r.st.Note("lines-no-nl")
	}
	if strings.HasPrefix(s, "\n") && len(s) > 1 {
		r.st.Note("lines-leading-nl")
	}
}

func (r *x1c20split) noteLarge(what string, ps []string) {
	longest := 0
	for _, p := range ps {
		longest = max(longest, len(p))
	}
	lbNote(r.st, what+"-pieces", len(ps))
	lbNote(r.st, what+"-longest-piece", longest)
}

func (r *x1c20split) Exec(op []string) string {
	switch op[0] {
	case "reset":
		return "-"
	case "split":
		s, sep := string(c20Unhex(op[1])), string(c20Unhex(op[2]))
		r.noteSplit(s, sep)
		ps := mstr.Split(s, sep)
		r.noteLarge("split", ps)
		lbNote(r.st, "split-sep-len", len(sep))
		return x1c20Fmt(ps)
	case "lines":
		s := string(c20Unhex(op[1]))
		r.noteLines(s)
		ps := mstr.Lines(s)
		r.noteLarge("lines", ps)
		return x1c20Fmt(ps)
	}
	return "bad-op"
}

func x1c20SplitOp(s, sep []byte) string {
	return "split " + c20Hex(s) + " " + c20Hex(sep)
}

// x1c20All calls f on every string over alpha of length <= maxLen, shorter strings first
// (so that the first failing case is a smallest one).
func x1c20All(alpha []byte, maxLen int, f func(s []byte)) {
	level := [][]byte{nil}
	for l := 0; ; l++ {
		for _, s := range level {
			f(s)
		}
		if l == maxLen {
			return
		}
		var next [][]byte
		for _, s := range level {
			for _, b := range alpha {
				next = append(next, append(append([]byte(nil), s...), b))
			}
		}
		level = next
	}
}

var x1c20SmallSeps = []string{",", "\n", ",,", "a,", ""}

// pieces and separators for the random part: repeated / overlapping / multi-byte separators
var x1c20RandSeps = []string{",", "\n", "aa", "aba", "ab", ", ", "--", "\r\n", "\xc3\xa9", "\xe2\x82\xac", "\x00", "a", "aaa", "abab"}
var x1c20Atoms = []string{"a", "b", "ab", "ba", "aa", ",", "\n", "-", " ", "x", "\xc3\xa9", "\xe2\x82\xac", "\xf0\x9f\x98\x80", "\xc3", "\x80", "\xff", "\r"}

func x1c20RandString(g *G, sep string, maxAtoms int) []byte {
	var s []byte
	for k := g.Intn(maxAtoms + 1); k > 0; k-- {
		switch g.Intn(5) {
		case 0, 1:
			s = append(s, sep...)
		case 2:
			if len(sep) > 1 { // a proper prefix or suffix of the separator: near misses and overlaps
				c := 1 + g.Intn(len(sep)-1)
				if g.Chance(1, 2) {
					s = append(s, sep[:c]...)
				} else {
					s = append(s, sep[c:]...)
				}
			} else {
				s = append(s, g.Pick(x1c20Atoms...)...)
			}
		default:
			s = append(s, g.Pick(x1c20Atoms...)...)
		}
	}
	return s
}

func genX1C20Split(g *G) {
	// named edge cases first (g.Each: fixed and exhaustive parts are dealt to the generator shards)
	g.Each([]string{"reset",
		"lines x", "lines x0a", "lines x610a", "lines x610a0a", "lines x0a0a", "lines x0a61", "lines x61", "lines x610a62", "lines x610a620a",
		"split x x2c", "split x x", "split x61 x", "split x2c x2c", "split x2c2c x2c", "split x61 x6161", "split x6161616161 x6161",
		"split x6162616261 x616261", "split x612c62 x2c", "split x2c612c x2c", "split xc3a9e282acf09f9880 x", "split xc3 x", "split xe282 x", "split x80c3a9ff x",
	})
	// exhaustive: every string over {a , \n} up to the bound, with five separators and Lines
	maxLen := g.Scale(6, 8)
	x1c20All([]byte{0x61, 0x2c, 0x0a}, maxLen, func(s []byte) {
		ops := []string{"reset"}
		for _, sep := range x1c20SmallSeps {
			ops = append(ops, x1c20SplitOp(s, []byte(sep)))
		}
		ops = append(ops, "lines "+c20Hex(s))
		g.Each(ops)
	})
	// exhaustive: valid, truncated and damaged UTF-8 with the EMPTY separator (ties runeSize /
	// runeCount to DecodeRuneInString / RuneCountInString); also a one-byte separator inside
	ops := []string{"reset"}
	x1c20All([]byte{0x61, 0x80, 0xbf, 0xc3, 0xe2, 0xf0, 0xa9}, g.Scale(4, 5), func(s []byte) {
		ops = append(ops, x1c20SplitOp(s, nil))
		if len(ops) > 4 {
			g.Each(ops)
			ops = []string{"reset"}
		}
	})
	g.Each(ops)
	// the lead x second-byte class table of UTF-8 well-formedness, padded with continuation bytes
	for _, b0 := range c20ByteWide {
		ops := []string{"reset"}
		for _, b1 := range c20ByteWide {
			for pad := 0; pad <= 2; pad++ {
				s := []byte{b0, b1}
				for i := 0; i < pad; i++ {
					s = append(s, 0x80)
				}
				ops = append(ops, x1c20SplitOp(append(s, 'a'), nil))
			}
		}
		g.Each(ops)
	}
	// random longer strings around repeated / overlapping / multi-byte separators
	cases := g.Scale(1500, 15000)
	for c := 0; c < cases; c++ {
		ops := []string{"reset"}
		for k := 0; k < 4; k++ {
			sep := g.Pick(x1c20RandSeps...)
			s := x1c20RandString(g, sep, g.Scale(10, 30))
			switch g.Intn(12) {
			case 0: // separator equal to the string
				s = []byte(sep)
			case 1: // separator longer than the string
				if len(s) > 0 {
					sep = string(s) + g.Pick(x1c20Atoms...)
				}
			case 2: // runs of one byte against a multi-byte run separator ("aa" in "aaaaa")
				s = []byte(strings.Repeat(sep[:1], g.Intn(3*len(sep)+3)))
			case 3: // leading and trailing separators
				s = append(append([]byte(sep), s...), sep...)
			case 4: // empty separator on a mixed string
				sep = ""
			}
			ops = append(ops, x1c20SplitOp(s, []byte(sep)))
			// Lines on the same material with newlines spliced in and 0..2 trailing newlines
			l := []byte(strings.ReplaceAll(string(s), sep, "\n"))
			if sep == "" {
				l = append([]byte(nil), s...)
			}
			for t := g.Intn(3); t > 0; t-- {
				l = append(l, '\n')
			}
			ops = append(ops, "lines "+c20Hex(l))
		}
		g.Case(ops)
	}
	genX1C20SplitLarge(g)
}

func init() {
	register(&Stream{Name: "C20.split", Gen: genX1C20Split, New: func(st *Stats) Runner { return &x1c20split{st: st} }})
}
