package main

import (
	"fmt"
	"slices"
)

// LARGE-case families of C11, C12.lcs, C12.lis, C12.compare (see x2b_large.go), and the aliased-view cases of
// C11 (`editview`).  EditScript / LCS / LIS keep no state between calls; the thresholds are input lengths, run
// lengths and the position of the first difference (the dynamic programme works on two rows of the SHORTER
// input; the LIS tails are searched by bisection).  The reference LCS length is quadratic, so the inputs stay
// at or below 2000 elements (one pair of 2000 in the quick tier).

// c11chunks emits `op v…` lines of at most 200 values (a failure shrinks by removing lines).
func c11chunks(ops []string, op string, vs []int) []string {
	for lo := 0; lo < len(vs); lo += 200 {
		ops = append(ops, c11line(op, vs[lo:min(lo+200, len(vs))]))
	}
	return ops
}

// c11longPair builds two related sequences of about n elements: common runs whose lengths are drawn from
// runLens (cycled), separated by a deletion, an insertion or a replacement of 1..3 elements.
func c11longPair(g *G, n, alpha int, runLens []int) (a, b []int) {
	sym := func() int { return g.Intn(alpha) }
	for k := 0; len(a) < n; k++ {
		l := runLens[k%len(runLens)]
		for i := 0; i < l && len(a) < n; i++ {
			v := sym()
			a, b = append(a, v), append(b, v)
		}
		m := 1 + g.Intn(3)
		switch g.Intn(3) {
		case 0:
			for i := 0; i < m; i++ {
				a = append(a, sym())
			}
		case 1:
			for i := 0; i < m; i++ {
				b = append(b, sym())
			}
		default:
			for i := 0; i < m; i++ {
				a, b = append(a, sym()), append(b, alpha+sym())
			}
		}
	}
	return a, b
}

type c11pair struct {
	what string
	a, b []int
}

// c11largePairs: the input pairs of the large family (the same for C11 and C12.lcs).
func c11largePairs(g *G) []c11pair {
	rep := func(v, n int) []int { return slices.Repeat([]int{v}, n) }
	var ps []c11pair
	add := func(what string, a, b []int) { ps = append(ps, c11pair{what, a, b}) }
	sizes := []int{200, 257, 513}
	if g.Thorough() {
		sizes = []int{64, 65, 128, 129, 200, 256, 257, 300, 512, 513, 700, 1000, 1024, 1025, 1500, 2000}
	}
	off := int(c13genSeed() / 1000)
	for si, n := range sizes {
		alpha := []int{2, 4, 50}[(si+off)%3]
		a, b := c11longPair(g, n, alpha, []int{7, 8, 9, 33, 64, 65, 1, 128, 2, 257})
		add("long-common-runs", a, b)
		add("long-common-runs-swapped", b, a)
		// heavy repetition: one symbol, different lengths (every alignment is optimal)
		add("one-symbol", rep(0, n), rep(0, n-n/8))
		// equal inputs (the script is empty), and equal but for the last / the first element
		c, _ := c11longPair(g, n, alpha, []int{n})
		add("equal", c, slices.Clone(c))
		d := slices.Clone(c)
		d[len(d)-1] = alpha + 1
		add("differ-in-last", c, d)
		e := slices.Clone(c)
		e[0] = alpha + 1
		add("differ-in-first", e, c)
		// a long input against a short one, both orders; against nothing
		short := c[n/3 : n/3+9]
		add("long-vs-short", c, slices.Clone(short))
		add("short-vs-long", slices.Clone(short), c)
		if si%2 == 0 {
			add("long-vs-empty", c, nil)
			add("empty-vs-long", nil, c)
			// rotation and reversal of a small-alphabet sequence
			add("rotated", c, append(slices.Clone(c[n/3:]), c[:n/3]...))
			r := slices.Clone(c)
			slices.Reverse(r)
			add("reversed", c, r)
			add("nothing-common", rep(1, n), rep(2, n/2))
		}
	}
	if !g.Thorough() {
		// the work is the PRODUCT of the lengths (reference LCS length, model and code): in the quick tier the
		// inputs of 1000 and 2000 elements meet a partner of 1000 / 150 elements
		a, b := c11longPair(g, 1000, []int{2, 4, 50}[off%3], []int{300, 5, 257, 3, 129})
		add("long-common-runs-1000", a, b)
		c, _ := c11longPair(g, 2000, 4, []int{2000})
		var few []int
		for i := 0; i < len(c); i++ {
			if i%400 < 30 {
				few = append(few, c[i]) // five runs of 30 elements taken from the long input
			}
		}
		add("2000-vs-150", c, few)
		add("150-vs-2000", few, c)
		add("one-symbol-2000-vs-100", rep(0, 2000), rep(0, 100))
	}
	return ps
}

func c11largeOps(p c11pair) []string {
	ops := []string{"reset"}
	ops = c11chunks(ops, "l", p.a)
	return c11chunks(ops, "r", p.b)
}

// genC11Large: the large pairs with the stream's calls; for C12.lcs also the aliased prefixes of the long input.
func genC11Large(g *G, calls []string) {
	for _, p := range c11largePairs(g) {
		ops := append(c11largeOps(p), calls...)
		// aliased views of the long input (every further call is another quadratic computation: up to 600 elements)
		if n := len(p.a); n > 64 && n <= 600 && p.what == "long-common-runs" {
			if calls[0] == "lcs" {
				ops = append(ops, fmt.Sprintf("lcsview %d %d", n, n-n/8), fmt.Sprintf("lcsview %d %d", 65, n), fmt.Sprintf("lcsview %d %d", n, n))
			}
			if calls[0] == "edit" {
				ops = append(ops, fmt.Sprintf("editview 0 %d 0 %d", n, n-n/8), fmt.Sprintf("editview 0 65 0 %d", n), fmt.Sprintf("editview 0 %d 0 %d", n, n),
					fmt.Sprintf("editview %d %d 0 %d", n/8, n, n-n/8))
			}
		}
		g.Each(ops)
	}
}

// genC11Views: EditScript on two views of ONE backing array (stream C11, op `editview i a j b`: lhs[i:a] and
// lhs[j:b]).  A common start with different lengths in both orders, different starts, identical views, disjoint
// and overlapping windows; small inputs (a failure is a small replay), dealt to the shards so that every quick
// run has all of them.
func genC11Views(g *G) {
	bases := [][]int{{1, 2, 3}, {0, 0, 0, 0}, {0, 1, 0, 1, 0, 1}, {5}, {1, 2, 3, 4, 5, 6, 7, 8}, {2, 2, 1, 2, 2, 1, 2}, {}}
	for _, base := range bases {
		n := len(base)
		ops := []string{"reset " + c11fmtCsv(base) + " -"}
		for a := 0; a <= n; a++ {
			for b := 0; b <= n; b++ {
				if n > 4 && (a+b)%3 != 0 && a != b && a != n && b != n {
					continue
				}
				ops = append(ops, fmt.Sprintf("editview 0 %d 0 %d", a, b))
			}
		}
		g.Each(ops)
		if n >= 3 {
			ops = []string{"reset " + c11fmtCsv(base) + " -"}
			for i := 0; i < n; i++ {
				for j := 0; j < n; j++ {
					if i != j && (n <= 4 || (i+j)%2 == 1) {
						ops = append(ops, fmt.Sprintf("editview %d %d %d %d", i, n, j, n), fmt.Sprintf("editview %d %d %d %d", i, min(i+2, n), j, min(j+3, n)))
					}
				}
			}
			g.Each(ops)
		}
	}
	// random: a base of 10..60 elements over a small alphabet, random windows
	for c := 0; c < g.Scale(40, 600); c++ {
		n := 10 + g.Intn(50)
		base := c17rand(g, n, 2+g.Intn(3))
		ops := []string{"reset", c11line("l", base)}
		for k := 0; k < 6; k++ {
			i, j := g.Intn(n), g.Intn(n)
			a, b := i+g.Intn(n-i+1), j+g.Intn(n-j+1)
			switch g.Intn(4) {
			case 0:
				j = i // a common start
			case 1:
				i, j = 0, 0
				if g.Chance(1, 2) {
					a = n
				} else {
					b = n
				}
			}
			a, b = max(a, i), max(b, j)
			ops = append(ops, fmt.Sprintf("editview %d %d %d %d", i, a, j, b))
		}
		g.Case(ops)
	}
}

// ---------------------------------------------------------------- C12.lis / C12.compare

// c12shapes: sequences of n elements that drive the LIS/LNDS tails array through its regimes: one long
// increasing run (the fast path only), one long decreasing run (every element replaces tails[0]), sawteeth whose
// period sits around a threshold, heavy ties (two or three values), plateaus, an organ pipe, a shuffle.
func c12shapes(g *G, n int) [][]int {
	mk := func(f func(i int) int) []int {
		vs := make([]int, n)
		for i := range vs {
			vs[i] = f(i)
		}
		return vs
	}
	p := []int{7, 8, 9, 33, 64, 65, 257}[g.Intn(7)]
	perm := g.R.Perm(n)
	return [][]int{
		mk(func(i int) int { return i }),
		mk(func(i int) int { return n - i }),
		mk(func(i int) int { return i % p }),
		mk(func(i int) int { return (i % p) + (i/p)%3 }),
		mk(func(i int) int { return g.Intn(3) }),
		mk(func(i int) int { return i / p }),
		mk(func(i int) int { return 2*(i/p) + g.Intn(2) }), // ties under `half`
		mk(func(i int) int { return min(i, n-1-i) }),
		mk(func(i int) int { return perm[i] }),
		mk(func(i int) int { return perm[i] / 8 }),
		mk(func(i int) int { return i - 2*(i%2)*g.Intn(p) }), // increasing with dips: fast path, then deep searches
	}
}

// c12stairs: B ascending blocks of L elements over the same range, each block a little LOWER than the one
// before (block b holds i*B + B-1-b for i = 0..L-1; with neg everything is negated, for the reversed orders).
// The first block builds L tails on the fast path alone; every element of every later block must displace the
// tail at its own depth, from the shallowest to the deepest, so that the bisection is run at EVERY depth of a
// tails array of L entries, and the result is the last block: a wrong probe anywhere shows in the result.
func c12stairs(L, B int, neg bool) []int {
	vs := make([]int, 0, L*B)
	for b := 0; b < B; b++ {
		for i := 0; i < L; i++ {
			v := i*B + B - 1 - b
			if neg {
				v = -v
			}
			vs = append(vs, v)
		}
	}
	return vs
}

func genC12LisLarge(g *G, calls []string, big []int) {
	sizes := []int{64, 65, 257}
	if g.Thorough() {
		sizes = []int{64, 65, 66, 127, 128, 129, 255, 256, 257, 258, 511, 512, 513, 514}
	}
	off := int(c13genSeed() / 1000)
	for _, n := range sizes {
		for hi, vs := range c12shapes(g, n) {
			if !g.Thorough() && n > 65 && (hi+off)%2 == 1 {
				continue // quick: at 257 elements a rotating half of the shapes
			}
			g.Each(append(c11chunks([]string{"reset"}, "v", vs), calls...))
		}
	}
	// tails arrays of 65 / 257 / 514 entries displaced at every depth (the driver's cost is quadratic: the longer
	// ones with a rotating third of the calls in the quick tier)
	third := func(k int) []string {
		if g.Thorough() {
			return calls
		}
		var few []string
		for ci, c := range calls {
			if (ci+k+off)%3 == 0 {
				few = append(few, c)
			}
		}
		return few
	}
	g.Each(append(c11chunks([]string{"reset"}, "v", c12stairs(65, 3, false)), calls...))
	g.Each(append(c11chunks([]string{"reset"}, "v", c12stairs(65, 2, true)), calls...))
	g.Each(append(c11chunks([]string{"reset"}, "v", c12stairs(257, 2, false)), calls...))
	g.Each(append(c11chunks([]string{"reset"}, "v", c12stairs(257, 2, true)), third(0)...))
	g.Each(append(c11chunks([]string{"reset"}, "v", c12stairs(514, 2, false)), third(1)...))
	if g.Thorough() {
		g.Each(append(c11chunks([]string{"reset"}, "v", c12stairs(514, 3, true)), calls...))
		g.Each(append(c11chunks([]string{"reset"}, "v", c12stairs(1025, 2, false)), calls...))
	}
	// 1000 and more elements (the model searches the tails array linearly: a call on n elements costs about
	// n^2/25 microseconds in the driver): a few shapes, always the heavy ties, with a rotating third of the calls
	if g.Thorough() {
		big = []int{1000, 1023, 1024, 1025, 2000, 4096, 4097}
	}
	for bi, n := range big {
		for hi, vs := range c12shapes(g, n) {
			if !g.Thorough() && hi != 4 && hi != 6 && (hi+bi+off)%6 != 0 {
				continue
			}
			var few []string
			for ci, c := range calls {
				if g.Thorough() && n <= 2000 || (ci+hi+bi+off)%3 == 0 {
					few = append(few, c)
				}
			}
			g.Each(append(c11chunks([]string{"reset"}, "v", vs), few...))
		}
	}
}
