package main

import (
	"fmt"
	"math"
	"strings"

	"github.com/creachadair/mds/mlink"
	"github.com/creachadair/mds/ring"
	"github.com/creachadair/mds/stack"
)

// C10: stack.Stack, mlink.List (+cursors), mlink.Queue and ring.Ring against
// their heap models and reference sequences.  Four streams: C10.stack,
// C10.mlink, C10.mlinkq, C10.ring.

// c10try runs f and maps a panic to "panic:<class>", so that the state dump
// after a refused call is still part of the observation.
func c10try(st *Stats, f func() string) (res string) {
	defer func() {
		if x := recover(); x != nil {
			res = "panic:" + panicClass(x)
			st.Panics[res]++
		}
	}()
	return f()
}

func c10reg(tok string) int { return atoi(tok[1:]) }

func c10ints(toks []string) []int {
	vs := make([]int, len(toks))
	for i, t := range toks {
		vs[i] = atoi(t)
	}
	return vs
}

// Hang containment.  A call that never returns (F7: invalidate() on a
// self-linked entry) is turned into the observation "hang" by the framework's
// per-case watchdog, which abandons the goroutine; that costs 10 s and one
// spinning goroutine per hanging case.  To keep a run against a hanging tree
// bounded, every risky call is bracketed by c10enter/c10leave: a marker that is
// still set when the next case starts means the previous call of that class
// never returned.  After two such real hangs of a class (op name, stale or
// not) in this process, further calls of the class are not executed and
// reported as "hang" directly (the rest of the case as "skipped", exactly as
// the framework does).  On a tree where nothing hangs this never triggers;
// shrinking and replay re-run candidates in fresh processes, i.e. for real.
var (
	c10inflight string
	c10hung     = map[string]int{}
)

func c10enter(class string) bool {
	if c10inflight != "" {
		c10hung[c10inflight]++
		c10inflight = ""
	}
	if c10hung[class] >= 2 {
		return false
	}
	c10inflight = class
	return true
}

func c10leave() { c10inflight = "" }

// ---------------------------------------------------------------- C10.stack

type c10stack struct {
	s  *stack.Stack[int]
	st *Stats
	lg lgTrack
}

func (r *c10stack) Exec(op []string) string {
	res := c10try(r.st, func() string {
		switch op[0] {
		case "reset":
			if len(op) > 1 && op[1] == "new" {
				r.s = stack.New[int]()
			} else {
				r.s = &stack.Stack[int]{}
			}
			r.lg.reset()
			return "-"
		case "pushn", "addn":
			// bulk form of push/add for the large cases: op[2] single calls with the values op[1], op[1]+1, …;
			// one observation of the whole state at the end
			a, n := atoi(op[1]), atoi(op[2])
			for i := 0; i < n; i++ {
				if op[0] == "pushn" {
					r.s.Push(a + i)
				} else {
					r.s.Add(a + i)
				}
				r.lg.see(r.st, "stack", r.s.Len())
			}
			return "-"
		case "popn":
			// bulk form of pop: op[1] single calls; reports value, ok, Len and Top after every one of them
			var sb strings.Builder
			sb.WriteByte('[')
			for i, n := 0, atoi(op[1]); i < n; i++ {
				if i > 0 {
					sb.WriteByte(' ')
				}
				v, ok := r.s.Pop()
				fmt.Fprintf(&sb, "%s,%d,%d", fmtPop(v, ok), r.s.Len(), r.s.Top())
				r.lg.see(r.st, "stack", r.s.Len())
			}
			sb.WriteByte(']')
			return sb.String()
		case "push":
			r.s.Push(atoi(op[1]))
			return "-"
		case "add":
			r.s.Add(atoi(op[1]))
			return "-"
		case "pop":
			if r.s.Len() == 1 {
				r.st.Note("pop-to-empty")
			} else if r.s.Len() == 0 {
				r.st.Note("pop-empty")
			}
			v, ok := r.s.Pop()
			return fmtPop(v, ok)
		case "clear":
			r.s.Clear()
			return "-"
		case "top":
			return fmt.Sprint(r.s.Top())
		case "peek":
			n := atoi(op[1])
			if n < 0 {
				r.st.Note("peek-neg")
			} else if n >= r.s.Len() {
				r.st.Note("peek-beyond")
			} else if n > 0 {
				r.st.Note("peek-inside")
			}
			v, ok := r.s.Peek(n)
			return fmtPop(v, ok)
		case "each":
			k := atoi(op[1])
			var got []int
			r.s.Each(func(v int) bool {
				got = append(got, v)
				return len(got) <= k
			})
			if len(got) < r.s.Len() {
				r.st.Note("each-early-stop")
			}
			return fmtInts(got)
		}
		return "bad-op"
	})
	s := r.s
	r.lg.see(r.st, "stack", s.Len())
	return fmt.Sprintf("%s len=%d empty=%s top=%d slice=%s", res, s.Len(), fmtBool(s.IsEmpty()), s.Top(), fmtInts(s.Slice()))
}

// c10seq builds a history that moves a LIFO/FIFO container through a schedule of sizes: in bulk (pushn/popn)
// or with single operations, observing the whole state at every size it stops at.
type c10seq struct {
	ops        []string
	n, next    int
	bulk       bool
	caps       bool   // slice-backed: also stop around the capacities of lgCaps
	grow, more string // single grow op, bulk grow op ("" when the stream has none)
	pop, popn  string
}

func (b *c10seq) add(format string, a ...any) { b.ops = append(b.ops, fmt.Sprintf(format, a...)) }

// to changes the size to target.
func (b *c10seq) to(target int) {
	switch d := target - b.n; {
	case d > 1 && b.bulk:
		b.add("%s %d %d", b.more, b.next, d)
		b.next += d
	case d > 0:
		for i := 0; i < d; i++ {
			b.add("%s %d", b.grow, b.next)
			b.next++
		}
	case d < -1 && b.bulk:
		b.add("%s %d", b.popn, -d)
	case d < 0:
		for i := 0; i < -d; i++ {
			b.add("%s", b.pop)
		}
	}
	b.n = target
}

// up and down walk through the observation points of lgPoints between the current size and target.
func (b *c10seq) up(target, small int) {
	for _, p := range lgPoints(target, small, b.caps) {
		if p > b.n {
			b.to(p)
		}
	}
}

func (b *c10seq) down(target, small int) {
	pts := lgPoints(b.n, small, b.caps)
	for i := len(pts) - 1; i >= 0; i-- {
		if pts[i] < b.n && pts[i] >= target {
			b.to(pts[i])
		}
	}
	b.to(target)
}

// genC10stackLarge: stacks that grow past a size threshold and are drained below a quarter of it (seeded change
// C10-stack-pop-shrink-doubles: Pop reallocates once cap > 32 and len < cap/4), from the zero value and New, by
// Push and by Add, in bulk and one element at a time, then regrown, cleared and regrown again.
func genC10stackLarge(g *G) {
	type lc struct {
		n    int
		bulk bool
	}
	var cs []lc
	for _, n := range []int{33, 65, 130, 257, 520, 1025} {
		cs = append(cs, lc{n, true})
	}
	for _, n := range []int{33, 40, 65, 130} {
		cs = append(cs, lc{n, false})
	}
	if g.Thorough() {
		for _, n := range []int{34, 64, 66, 129, 256, 300, 513, 700, 849, 1024, 1281, 2049, 4097, 4100, 5121} {
			cs = append(cs, lc{n, true})
		}
		for _, n := range []int{34, 64, 66, 129, 257, 300, 513} {
			cs = append(cs, lc{n, false})
		}
	}
	for _, c := range cs {
		route := g.Intn(4)
		b := &c10seq{next: 1, bulk: c.bulk, caps: true, grow: "push", more: "pushn", pop: "pop", popn: "popn"}
		if route&1 == 1 {
			b.grow, b.more = "add", "addn"
		}
		b.add("reset %s", []string{"zero", "new"}[route>>1])
		N := c.n
		b.up(N, 12)
		b.add("peek %d", N-1)
		b.add("peek %d", N)
		b.add("peek %d", N/2)
		b.add("each %d", 2)
		b.down(0, 40) // every size from 40 down is observed after a single pop
		b.add("%s", b.pop)
		// carry-over: the drained stack is used again — regrow to a half, drain below a quarter, past N, Clear, regrow
		b.up(N/2+1, 0)
		b.down(N/4-1, 20)
		b.up(N+1+g.Intn(3), 0)
		b.add("peek %d", b.n-1)
		if g.Chance(1, 2) {
			b.add("clear")
			b.n = 0
			b.up(33+g.Intn(8), 0)
		}
		b.down(0, 20)
		b.add("top")
		g.Each(b.ops)
	}
}

func genC10stack(g *G) {
	genC10stackLarge(g)
	cases := g.Scale(300, 6000)
	maxOps := g.Scale(60, 300)
	next := 1
	for c := 0; c < cases; c++ {
		ops := []string{g.Pick("reset zero", "reset new")}
		n := 0
		nops := 4 + g.Intn(maxOps)
		for len(ops) < nops {
			switch k := g.Intn(100); {
			case k < 30:
				ops = append(ops, fmt.Sprintf("push %d", next))
				next++
				n++
			case k < 40:
				ops = append(ops, fmt.Sprintf("add %d", next))
				next++
				n++
			case k < 65:
				ops = append(ops, "pop")
				if n > 0 {
					n--
				}
			case k < 68:
				ops = append(ops, "clear")
				n = 0
			case k < 73:
				ops = append(ops, "top")
			case k < 90:
				ops = append(ops, fmt.Sprintf("peek %d", g.Intn(n+4)-2))
			default:
				ops = append(ops, fmt.Sprintf("each %d", g.Intn(n+2)))
			}
		}
		for k := -1; k <= n+1; k++ {
			ops = append(ops, fmt.Sprintf("peek %d", k))
		}
		// the ends of the int range (index arithmetic that negates or subtracts must not wrap into range)
		for _, k := range []int{math.MaxInt64, math.MinInt64, math.MinInt64 + n, math.MaxInt64 - n, 1 << 32, -(1 << 32)} {
			ops = append(ops, fmt.Sprintf("peek %d", k))
		}
		g.Case(ops)
	}
}

// ---------------------------------------------------------------- C10.mlink

type c10mlink struct {
	l    *mlink.List[int]
	cur  [4]*mlink.Cursor[int]
	st   *Stats
	skip bool
	lg   lgTrack
}

// c10sizeClass names the largest threshold of the large families that n reaches ("" below 33).
func c10sizeClass(n int) string {
	cl := ""
	for _, t := range []int{33, 65, 129, 257, 513, 1025} {
		if n >= t {
			cl = fmt.Sprintf(">=%d", t)
		}
	}
	return cl
}

// closed reports whether the chain of the list reaches its end within a
// bounded number of steps (walked by hand with a cursor); Each/Len/At/... are
// only called when it does, so a cyclic chain is an observation, not a hang.
func (r *c10mlink) closed() (ok bool) {
	defer func() {
		if recover() != nil {
			ok = false
		}
	}()
	c := *r.l.At(0)
	for i := 0; i < c10walkMax; i++ {
		if c.AtEnd() {
			return true
		}
		c.Next()
	}
	return false
}

func (r *c10mlink) dump(res string) string {
	if blindObs { // second, query-free execution (Stream.Blind)
		return res
	}
	var sb strings.Builder
	sb.WriteString(res)
	if r.closed() {
		var all []int
		r.l.Each(func(v int) bool { all = append(all, v); return true })
		v0, ok0 := r.l.Peek(0)
		fmt.Fprintf(&sb, " list=%s len=%d empty=%s peek0=%s", fmtInts(all), r.l.Len(), fmtBool(r.l.IsEmpty()), fmtPop(v0, ok0))
		r.lg.see(r.st, "mlink", len(all))
	} else {
		sb.WriteString(" list=open")
	}
	for i, c := range r.cur {
		if c == nil {
			fmt.Fprintf(&sb, " c%d=-", i)
			continue
		}
		s := func() (s string) {
			defer func() {
				if x := recover(); x != nil {
					s = "panic"
				}
			}()
			return fmt.Sprintf("%d,%s", c.Get(), fmtBool(c.AtEnd()))
		}()
		fmt.Fprintf(&sb, " c%d=%s", i, s)
	}
	return sb.String()
}

// stale reports whether using c panics (without changing anything).
func c10stale(c *mlink.Cursor[int]) (stale bool) {
	defer func() {
		if recover() != nil {
			stale = true
		}
	}()
	c.AtEnd()
	return false
}

func (r *c10mlink) countStale() int {
	n := 0
	for _, c := range r.cur {
		if c != nil && c10stale(c) {
			n++
		}
	}
	return n
}

func (r *c10mlink) Exec(op []string) string {
	if op[0] == "reset" {
		if len(op) > 1 && op[1] == "new" {
			r.l = mlink.NewList[int]()
			r.st.Note("constructed-by-NewList")
		} else {
			r.l = &mlink.List[int]{}
		}
		r.cur = [4]*mlink.Cursor[int]{}
		r.lg.reset()
		return r.dump("-")
	}
	if r.skip {
		return "skipped"
	}
	class := "mlink/" + op[0]
	if len(op) > 1 && op[1][0] == 'c' {
		if c := r.cur[c10reg(op[1])]; c != nil && c10stale(c) {
			class += "/stale"
		}
	}
	if !c10enter(class) {
		r.skip = true
		return "hang"
	}
	defer c10leave()
	staleBefore := r.countStale()
	res := c10try(r.st, func() string {
		// cursor-creating and list-level operations
		switch op[0] {
		case "at", "find", "last", "end", "clear", "peek", "each", "len":
			if !r.closed() {
				return "open"
			}
		}
		switch op[0] {
		case "at":
			n := atoi(op[2])
			if n >= r.l.Len() && n >= 0 {
				r.st.Note("at-beyond-is-end")
			}
			r.cur[c10reg(op[1])] = r.l.At(n)
			return "-"
		case "find":
			v := atoi(op[2])
			c := r.l.Find(func(x int) bool { return x == v })
			if c.AtEnd() {
				r.st.Note("find-miss")
			} else {
				r.st.Note("find-hit")
			}
			r.cur[c10reg(op[1])] = c
			return "-"
		case "last":
			if r.l.IsEmpty() {
				r.st.Note("last-of-empty")
			}
			r.cur[c10reg(op[1])] = r.l.Last()
			return "-"
		case "end":
			r.cur[c10reg(op[1])] = r.l.End()
			return "-"
		case "copy":
			src := r.cur[c10reg(op[2])]
			if src == nil {
				return "unset"
			}
			cp := *src
			r.cur[c10reg(op[1])] = &cp
			return "-"
		case "clear":
			r.l.Clear()
			return "-"
		case "peek":
			v, ok := r.l.Peek(atoi(op[1]))
			return fmtPop(v, ok)
		case "each":
			k := atoi(op[1])
			var got []int
			r.l.Each(func(v int) bool {
				got = append(got, v)
				return len(got) <= k
			})
			return fmtInts(got)
		case "len":
			return fmt.Sprint(r.l.Len())
		case "isempty":
			return fmtBool(r.l.IsEmpty())
		}
		// operations through a cursor register
		c := r.cur[c10reg(op[1])]
		if c == nil {
			return "unset"
		}
		isStale := c10stale(c)
		if isStale {
			r.st.Note("stale-" + op[0])
		}
		atEnd := !isStale && c.AtEnd()
		where := "mid"
		if atEnd {
			where = "end"
		}
		switch op[0] {
		case "push":
			if !isStale {
				r.st.Note("push-" + where)
			}
			c.Push(atoi(op[2]))
			return "-"
		case "add":
			if !isStale {
				r.st.Note(fmt.Sprintf("add%d-%s", len(op)-2, where))
			}
			c.Add(c10ints(op[2:])...)
			return "-"
		case "set":
			if !isStale {
				r.st.Note("set-" + where)
			}
			c.Set(atoi(op[2]))
			return "-"
		case "remove":
			if !isStale {
				r.st.Note("remove-" + where)
			}
			return fmt.Sprint(c.Remove())
		case "removen":
			// bulk form of remove for the large cases: op[2] single calls through the same cursor, reporting the
			// removed values; a panic ends it (the state dump shows how far it got)
			if !isStale && r.closed() {
				if cl := c10sizeClass(r.l.Len()); cl != "" && !atEnd {
					r.st.Note("mlink-drained-by-Remove-from" + cl)
				}
			}
			var got []int
			for i, n := 0, atoi(op[2]); i < n; i++ {
				got = append(got, c.Remove())
			}
			return fmtInts(got)
		case "truncate":
			if !isStale {
				r.st.Note("truncate-" + where)
				if r.closed() {
					if cl := c10sizeClass(r.l.Len()); cl != "" && !atEnd {
						r.st.Note("mlink-truncate-inside-list" + cl)
					}
				}
			}
			c.Truncate()
			return "-"
		case "next":
			return fmtBool(c.Next())
		case "get":
			return fmt.Sprint(c.Get())
		case "atend":
			return fmtBool(c.AtEnd())
		}
		return "bad-op"
	})
	if d := r.countStale() - staleBefore; d > 0 {
		r.st.Note(fmt.Sprintf("%s-invalidates-%d", op[0], d))
	}
	return r.dump(res)
}

// genC10mlinkLarge: lists of 40 to 520 elements (up to 1025 in thorough), built from the zero value and NewList
// by one Add at the end, by Adds of chunks at the end, and by Adds of chunks at the front; cursors at far
// positions; Push/Set/Remove deep inside; Truncate deep inside with cursors behind the cut (they go stale);
// drained by Remove from the front below a quarter, emptied one element at a time, regrown through a surviving
// cursor, cleared.
func genC10mlinkLarge(g *G) {
	sizes := []int{40, 65, 130, 257, 520}
	if g.Thorough() {
		sizes = append(sizes, 33, 64, 129, 256, 300, 513, 600, 1025)
	}
	off := g.Intn(6) // which route a size gets varies with the seed; every route occurs in every run
	for i, N := range sizes {
		ops := []string{[]string{"reset zero", "reset new"}[(i+off)/3%2]}
		add := func(format string, a ...any) { ops = append(ops, fmt.Sprintf(format, a...)) }
		vals := func(from, n int) string {
			var sb strings.Builder
			for j := 0; j < n; j++ {
				fmt.Fprintf(&sb, " %d", from+j)
			}
			return sb.String()
		}
		switch route := (i + off) % 3; route {
		case 0:
			add("end c0")
			add("add c0%s", vals(1, N))
		default:
			// chunks at the end (the cursor follows what it added) or at the front (a fresh cursor each time)
			if route == 1 {
				add("end c0")
			}
			for n := 0; n < N; {
				k := min(1+g.Intn(60), N-n)
				if route == 2 {
					add("at c0 0")
				}
				add("add c0%s", vals(n+1, k))
				n += k
			}
		}
		add("len")
		add("peek %d", N-1)
		add("peek %d", N)
		add("each 2")
		add("at c1 %d", N-1)
		add("at c2 %d", N/2)
		add("at c3 %d", N+5)
		add("last c3")
		add("find c1 %d", N-3)
		add("get c1")
		// edits deep inside
		add("push c2 7001")
		add("copy c3 c2")
		add("remove c2")
		add("set c2 7002")
		add("next c2")
		add("add c2 7003 7004 7005")
		add("remove c3")
		add("get c3")
		n := N + 2
		// Truncate deep inside; c1 is far behind the cut and goes stale
		add("at c1 %d", n-2)
		add("at c2 %d", n/2)
		add("truncate c2")
		n = n / 2
		add("get c1")
		add("atend c2")
		add("len")
		// drain by Remove from the front below a quarter of N, then cut to 40 and empty one element at a time
		add("at c0 0")
		if k := n - (N/4 - 1); k > 0 && N/4-1 >= 0 {
			add("removen c0 %d", k)
			n -= k
		}
		add("last c3")
		add("get c3")
		if n > 40 {
			add("at c2 40")
			add("truncate c2")
			n = 40
			add("get c3")
		}
		for ; n > 0; n-- {
			add("remove c0")
		}
		add("remove c0")
		add("isempty")
		// carry-over: regrow through the surviving cursor past N, look far, clear, use the list again
		add("add c0%s", vals(9001, N+1))
		add("at c1 %d", N)
		add("get c1")
		add("at c0 %d", N/3)
		add("removen c0 %d", N/2)
		add("len")
		add("clear")
		add("get c1")
		add("end c0")
		add("add c0%s", vals(1, 33+g.Intn(8)))
		add("last c1")
		add("get c1")
		add("len")
		g.Each(ops)
	}
}

func genC10mlink(g *G) {
	genC10mlinkLarge(g)
	val := func() int { return 1 + g.Intn(9) }
	reg := func() string { return fmt.Sprintf("c%d", g.Intn(4)) }
	builds := 0
	build := func(n int) []string {
		// the zero value and mlink.NewList() alternately (the exhaustive part) — both must behave alike
		builds++
		ops := []string{[]string{"reset zero", "reset new"}[builds%2]}
		if n > 0 {
			a := "add c0"
			for i := 1; i <= n; i++ {
				a += fmt.Sprintf(" %d", i)
			}
			ops = append(ops, "end c0", a)
		}
		return ops
	}
	// exhaustive small scope: every pair of cursor positions (including end of
	// list) on lists of length ≤ maxN, every editing op through the first
	// cursor followed by every op through the second (and the first again).
	maxN := g.Scale(3, 5)
	first := []string{"push c0 7", "add c0 7 8", "set c0 7", "remove c0", "truncate c0", "next c0", "clear"}
	second := []string{"push c1 9", "add c1 9", "set c1 9", "remove c1", "truncate c1", "next c1", "get c1", "atend c1"}
	for n := 0; n <= maxN; n++ {
		for i := 0; i <= n; i++ {
			for j := 0; j <= n; j++ {
				for _, o1 := range first {
					for _, o2 := range second {
						ops := build(n)
						ops = append(ops, fmt.Sprintf("at c0 %d", i), fmt.Sprintf("at c1 %d", j), "copy c2 c1", o1, o2, "next c2", "push c0 5", "next c1", "remove c2")
						g.Each(ops) // exhaustive part: dealt to the generator shards
					}
				}
			}
		}
	}
	// random histories, stale cursors deliberately kept and used
	cases := g.Scale(400, 8000)
	maxOps := g.Scale(50, 200)
	for c := 0; c < cases; c++ {
		n := g.Intn(7)
		ops := build(n)
		nops := len(ops) + 4 + g.Intn(maxOps)
		for len(ops) < nops {
			switch k := g.Intn(100); {
			case k < 10:
				ops = append(ops, fmt.Sprintf("at %s %d", reg(), g.Intn(n+3)-1+g.Intn(2)))
			case k < 15:
				ops = append(ops, fmt.Sprintf("find %s %d", reg(), val()))
			case k < 19:
				ops = append(ops, "last "+reg())
			case k < 23:
				ops = append(ops, "end "+reg())
			case k < 28:
				ops = append(ops, fmt.Sprintf("copy %s %s", reg(), reg()))
			case k < 38:
				ops = append(ops, fmt.Sprintf("push %s %d", reg(), val()))
				n++
			case k < 46:
				a := "add " + reg()
				m := g.Intn(4)
				for i := 0; i < m; i++ {
					a += fmt.Sprintf(" %d", val())
				}
				ops = append(ops, a)
				n += m
			case k < 53:
				ops = append(ops, fmt.Sprintf("set %s %d", reg(), val()))
			case k < 65:
				ops = append(ops, "remove "+reg())
				if n > 0 {
					n--
				}
			case k < 70:
				ops = append(ops, "truncate "+reg())
				n /= 2
			case k < 82:
				ops = append(ops, "next "+reg())
			case k < 86:
				ops = append(ops, g.Pick("get ", "atend ")+reg())
			case k < 88:
				ops = append(ops, "clear")
				n = 0
			case k < 93:
				ops = append(ops, fmt.Sprintf("peek %d", g.Intn(n+3)-1))
			case k < 97:
				ops = append(ops, fmt.Sprintf("each %d", g.Intn(n+2)))
			default:
				ops = append(ops, g.Pick("len", "isempty"))
			}
		}
		if c%8 == 0 {
			// the ends of the int range for At/Peek (negative: documented panic; huge: the end cursor)
			for _, k := range []int{math.MaxInt64, math.MinInt64, 1 << 32, -(1 << 32)} {
				ops = append(ops, fmt.Sprintf("peek %d", k), fmt.Sprintf("at %s %d", reg(), k))
			}
			ops = append(ops, "len")
		}
		g.Case(ops)
	}
}

// ---------------------------------------------------------------- C10.mlinkq

type c10mlinkq struct {
	q    *mlink.Queue[int]
	st   *Stats
	skip bool
	lg   lgTrack
}

func (r *c10mlinkq) Exec(op []string) string {
	if r.skip {
		return "skipped"
	}
	if !c10enter("mlinkq/" + op[0]) {
		r.skip = true
		return "hang"
	}
	defer c10leave()
	res := c10try(r.st, func() string {
		switch op[0] {
		case "reset":
			if op[1] == "new" {
				r.q = mlink.NewQueue[int]()
			} else {
				r.q = &mlink.Queue[int]{}
				r.st.Note("zero-value")
			}
			r.lg.reset()
			return "-"
		case "addn":
			// bulk form of add for the large cases: op[2] single calls with the values op[1], op[1]+1, …
			a, n := atoi(op[1]), atoi(op[2])
			for i := 0; i < n; i++ {
				r.q.Add(a + i)
				r.lg.see(r.st, "mlinkq", r.q.Len())
			}
			return "-"
		case "popn":
			// bulk form of pop: op[1] single calls; reports value, ok, Len and Front after every one of them
			var sb strings.Builder
			sb.WriteByte('[')
			for i, n := 0, atoi(op[1]); i < n; i++ {
				if i > 0 {
					sb.WriteByte(' ')
				}
				v, ok := r.q.Pop()
				fmt.Fprintf(&sb, "%s,%d,%d", fmtPop(v, ok), r.q.Len(), r.q.Front())
				r.lg.see(r.st, "mlinkq", r.q.Len())
			}
			sb.WriteByte(']')
			return sb.String()
		case "add":
			if r.q.IsEmpty() {
				r.st.Note("add-to-empty")
			}
			r.q.Add(atoi(op[1]))
			return "-"
		case "pop":
			if r.q.Len() == 1 {
				r.st.Note("pop-last")
			} else if r.q.Len() == 0 {
				r.st.Note("pop-empty")
			}
			v, ok := r.q.Pop()
			return fmtPop(v, ok)
		case "clear":
			if !r.q.IsEmpty() {
				r.st.Note("clear-nonempty")
			}
			r.q.Clear()
			return "-"
		case "front":
			return fmt.Sprint(r.q.Front())
		case "peek":
			v, ok := r.q.Peek(atoi(op[1]))
			return fmtPop(v, ok)
		case "each":
			k := atoi(op[1])
			var got []int
			r.q.Each(func(v int) bool {
				got = append(got, v)
				return len(got) <= k
			})
			return fmtInts(got)
		}
		return "bad-op"
	})
	var all []int
	r.q.Each(func(v int) bool { all = append(all, v); return true })
	r.lg.see(r.st, "mlinkq", r.q.Len())
	return fmt.Sprintf("%s len=%d empty=%s front=%d each=%s", res, r.q.Len(), fmtBool(r.q.IsEmpty()), r.q.Front(), fmtInts(all))
}

// genC10mlinkqLarge: queues grown past a size threshold (up to 520 in the quick tier, up to 1300 in
// thorough), drained from the front below a quarter of it, emptied (Pop resets the cached back cursor), used
// again, cleared and regrown — from the zero value and NewQueue, in bulk (addn/popn) and one element at a time.
func genC10mlinkqLarge(g *G) {
	type lc struct {
		n    int
		bulk bool
	}
	cs := []lc{{33, true}, {65, true}, {130, true}, {257, true}, {520, true}, {33, false}, {65, false}, {100, false}}
	if g.Thorough() {
		for _, n := range []int{40, 64, 129, 256, 300, 513, 600, 700, 1025, 1300} {
			cs = append(cs, lc{n, true})
		}
		for _, n := range []int{34, 64, 130, 257} {
			cs = append(cs, lc{n, false})
		}
	}
	for i, c := range cs {
		b := &c10seq{next: 1, bulk: c.bulk, grow: "add", more: "addn", pop: "pop", popn: "popn"}
		b.add("reset %s", []string{"zero", "new"}[(i+g.Intn(2))%2])
		N := c.n
		b.up(N, 12)
		b.add("peek %d", N-1)
		b.add("peek %d", N)
		b.add("peek %d", N/2)
		b.add("each %d", 2)
		b.down(0, 40) // every size from 40 down is observed after a single pop
		b.add("%s", b.pop)
		// carry-over: the emptied queue is used again — regrow to a half, drain below a quarter, past N, Clear, regrow
		b.up(N/2+1, 0)
		b.down(N/4-1, 20)
		b.up(N+1+g.Intn(3), 0)
		b.add("peek %d", b.n-1)
		if g.Chance(1, 2) {
			b.add("clear")
			b.n = 0
			b.up(33+g.Intn(8), 0)
		}
		b.down(0, 20)
		b.add("front")
		g.Each(b.ops)
	}
}

func genC10mlinkq(g *G) {
	genC10mlinkqLarge(g)
	cases := g.Scale(400, 8000)
	maxOps := g.Scale(60, 300)
	next := 1
	for c := 0; c < cases; c++ {
		ops := []string{g.Pick("reset zero", "reset new")}
		n := 0
		nops := 4 + g.Intn(maxOps)
		// small queues most of the time, so that emptying and refilling is frequent
		bias := 45 + g.Intn(25)
		for len(ops) < nops {
			switch k := g.Intn(100); {
			case k < bias-10:
				ops = append(ops, fmt.Sprintf("add %d", next))
				next++
				n++
			case k < 78:
				ops = append(ops, "pop")
				if n > 0 {
					n--
				}
			case k < 81:
				ops = append(ops, "clear")
				n = 0
			case k < 85:
				ops = append(ops, "front")
			case k < 94:
				ops = append(ops, fmt.Sprintf("peek %d", g.Intn(n+3)-1))
			default:
				ops = append(ops, fmt.Sprintf("each %d", g.Intn(n+2)))
			}
		}
		if c%8 == 0 {
			for _, k := range []int{math.MaxInt64, math.MinInt64, 1 << 32, -(1 << 32)} {
				ops = append(ops, fmt.Sprintf("peek %d", k))
			}
			ops = append(ops, "front")
		}
		g.Case(ops)
	}
}

// ---------------------------------------------------------------- C10.ring

type c10ring struct {
	r  [8]*ring.Ring[int]
	st *Stats
	lg lgTrack
}

// far above the longest chain any sub-history of a generated case can build (a shrink candidate that merges the
// rings of a large case stays below it), so that "open" always means a chain that does not close
const c10walkMax = 8000

// c10walk follows step from r until r comes up again; nil if that takes too long.
func c10walk(r *ring.Ring[int], step func(*ring.Ring[int]) *ring.Ring[int]) []int {
	var out []int
	cur := r
	for i := 0; i < c10walkMax; i++ {
		out = append(out, cur.Value)
		cur = step(cur)
		if cur == nil {
			return nil
		}
		if cur == r {
			return out
		}
	}
	return nil
}

func (r *c10ring) dump(res string) string {
	var sb strings.Builder
	sb.WriteString(res)
	if e := r.r[0]; e != nil {
		// the large cases keep their ring in r0
		r.lg.see(r.st, "ring", c10len(e))
	} else {
		r.lg.see(r.st, "ring", 0)
	}
	for i, e := range r.r {
		if e == nil {
			fmt.Fprintf(&sb, " r%d=-", i)
			continue
		}
		fw := c10walk(e, (*ring.Ring[int]).Next)
		bw := c10walk(e, (*ring.Ring[int]).Prev)
		if fw == nil || bw == nil {
			// the next (or prev) chain from e never returns to e: Each/Len would not terminate
			fmt.Fprintf(&sb, " r%d=%d/open/open/open", i, e.Value)
			continue
		}
		var all []int
		e.Each(func(v int) bool { all = append(all, v); return true })
		fmt.Fprintf(&sb, " r%d=%d/%s/%s/%d", i, e.Value, fmtInts(all), fmtInts(bw), e.Len())
	}
	return sb.String()
}

// c10len is the number of elements met walking Next by hand (0 when the chain does not close).
func c10len(r *ring.Ring[int]) int { return len(c10walk(r, (*ring.Ring[int]).Next)) }

// c10dist reports the distance from a to b along Next, or -1 when b is not on a's ring.
func c10dist(a, b *ring.Ring[int]) int {
	cur := a
	for i := 0; i < c10walkMax; i++ {
		if cur == b {
			return i
		}
		cur = cur.Next()
		if cur == a || cur == nil {
			return -1
		}
	}
	return -1
}

func (r *c10ring) Exec(op []string) string {
	if op[0] == "reset" {
		r.r = [8]*ring.Ring[int]{}
		r.lg.reset()
		return r.dump("-")
	}
	res := c10try(r.st, func() string {
		switch op[0] {
		case "of":
			r.r[c10reg(op[1])] = ring.Of(c10ints(op[2:])...)
			return "-"
		case "new":
			n := atoi(op[2])
			if n <= 0 {
				r.st.Note("new-nonpositive")
			}
			r.r[c10reg(op[1])] = ring.New[int](n)
			return "-"
		case "join":
			a, b := r.r[c10reg(op[2])], r.r[c10reg(op[3])]
			switch {
			case a == nil || b == nil:
				r.st.Note("join-nil")
			default:
				d := c10dist(a, b)
				switch {
				case d < 0:
					r.st.Note(fmt.Sprintf("join-different-%dx%d", c10len(a), c10len(b)))
				case d <= 1:
					r.st.Note(fmt.Sprintf("join-same-dist%d-noop", d))
				case d >= 33:
					r.st.Note("ring-join-same-cuts-segment" + c10sizeClass(d))
				default:
					r.st.Note(fmt.Sprintf("join-same-dist%d-of-%d", d, c10len(a)))
				}
			}
			r.r[c10reg(op[1])] = a.Join(b)
			return "-"
		case "pop":
			a := r.r[c10reg(op[2])]
			if a == nil {
				r.st.Note("pop-nil")
			} else if a.Next() == a {
				r.st.Note("pop-singleton")
			} else {
				r.st.Note("pop-member")
			}
			r.r[c10reg(op[1])] = a.Pop()
			return "-"
		case "next":
			r.r[c10reg(op[1])] = r.r[c10reg(op[2])].Next()
			return "-"
		case "prev":
			r.r[c10reg(op[1])] = r.r[c10reg(op[2])].Prev()
			return "-"
		case "at":
			a := r.r[c10reg(op[2])]
			n := atoi(op[3])
			res := a.At(n)
			if a != nil {
				if res == nil {
					r.st.Note("at-out-of-cycle")
					if n > 16 || n < -16 {
						r.st.Note("at-far-out-of-cycle")
					}
				} else if n < 0 {
					r.st.Note("at-negative")
				}
				if res != nil {
					if cl := c10sizeClass(max(n, -n)); cl != "" {
						r.st.Note("ring-at-offset" + cl + "-inside")
					}
				}
			}
			r.r[c10reg(op[1])] = res
			return "-"
		case "peek":
			v, ok := r.r[c10reg(op[1])].Peek(atoi(op[2]))
			return fmtPop(v, ok)
		case "len":
			if e := r.r[c10reg(op[1])]; e != nil && c10walk(e, (*ring.Ring[int]).Next) == nil {
				return "open"
			}
			return fmt.Sprint(r.r[c10reg(op[1])].Len())
		case "each":
			k := atoi(op[2])
			got := []int{}
			if e := r.r[c10reg(op[1])]; e != nil && c10walk(e, (*ring.Ring[int]).Next) == nil {
				return "open"
			}
			r.r[c10reg(op[1])].Each(func(v int) bool {
				got = append(got, v)
				return len(got) <= k
			})
			return fmtInts(got)
		case "isempty":
			return fmtBool(r.r[c10reg(op[1])].IsEmpty())
		}
		return "bad-op"
	})
	return r.dump(res)
}

// genC10ringLarge: rings of 40 to 520 elements (up to 900 in thorough; the harness walks at most c10walkMax
// links) built by Of, by New, by joining two halves and by joining singletons one at a time; At/Peek at far
// offsets in both directions (inside the cycle, exactly the cycle length, beyond); shrunk by Join of two far
// elements of the same ring (cuts out the segment between them) below a quarter, emptied by Pop one element at a
// time, regrown by Join with a fresh ring.
func genC10ringLarge(g *G) {
	seq := func(from, n int) string {
		var sb strings.Builder
		for i := 0; i < n; i++ {
			fmt.Fprintf(&sb, " %d", from+i)
		}
		return sb.String()
	}
	sizes := []int{40, 65, 130, 300, 520}
	if g.Thorough() {
		sizes = append(sizes, 33, 64, 129, 257, 513, 600, 900)
	}
	off := g.Intn(4)
	for i, N := range sizes {
		ops := []string{"reset"}
		add := func(format string, a ...any) { ops = append(ops, fmt.Sprintf(format, a...)) }
		route := (i + off) % 4
		if route == 3 && N > 130 {
			route = 2
		}
		switch route {
		case 0:
			add("of r0%s", seq(1, N))
		case 1:
			add("new r0 %d", N)
		case 2:
			add("of r0%s", seq(1, N/2))
			add("of r1%s", seq(N/2+1, N-N/2))
			add("join r7 r0 r1")
			add("at r1 r0 %d", N) // nil again: keeps the dump short
			add("at r7 r0 %d", N)
		default:
			add("of r0 1")
			for v := 2; v <= N; v++ {
				add("of r1 %d", v)
				add("join r7 r0 r1")
			}
			add("at r1 r0 %d", N)
			add("at r7 r0 %d", N)
		}
		n := N
		add("len r0")
		add("each r0 2")
		for _, k := range []int{n - 1, n, n + 1, -(n - 1), -n, n / 2, -(n / 2), 33, 64, 65, 128, 256, 257, -33, -64, -65, -257, 512} {
			add("peek r0 %d", k)
		}
		add("at r1 r0 %d", n-1)
		add("prev r2 r0") // the same element by the other route
		add("at r1 r0 %d", -(n - 1))
		add("at r2 r0 %d", n) // nil
		// shrink: cut out the segment between r0 and a far element of the same ring, twice; the second time below a
		// quarter of N
		for _, keep := range []int{n/2 + 1, max(N/4-1, 2)} {
			if keep >= n {
				continue
			}
			add("at r1 r0 %d", n-keep+1)
			add("join r2 r0 r1")
			add("len r2")
			add("at r1 r0 %d", n) // nil
			add("at r2 r0 %d", n) // nil: drop the segment that was cut out
			n = keep
			add("peek r0 %d", n-1)
			add("peek r0 %d", -n)
		}
		if n > 40 {
			add("at r1 r0 %d", n-40+1)
			add("join r2 r0 r1")
			add("at r1 r0 %d", n)
			add("at r2 r0 %d", n)
			n = 40
		}
		// empty by Pop, one element at a time (r0 stays; its successor is popped)
		for ; n > 1; n-- {
			add("next r1 r0")
			add("pop r2 r1")
		}
		add("pop r2 r0")
		add("len r0")
		// regrow: join the singleton with a fresh ring of N+1 elements, look far again, cut again
		add("of r3%s", seq(5001, N+1))
		add("join r7 r0 r3")
		add("at r3 r0 %d", N+2)
		add("at r7 r0 %d", N+2)
		n = N + 2
		add("len r0")
		add("peek r0 %d", n-1)
		add("peek r0 %d", -(n - 1))
		add("peek r0 %d", n)
		add("at r1 r0 %d", n-7)
		add("join r2 r0 r1")
		add("len r2")
		add("len r0")
		g.Each(ops)
	}
}

func genC10ring(g *G) {
	genC10ringLarge(g)
	seq := func(from, n int) string {
		var sb strings.Builder
		for i := 0; i < n; i++ {
			fmt.Fprintf(&sb, " %d", from+i)
		}
		return sb.String()
	}
	reg := func() string { return fmt.Sprintf("r%d", g.Intn(8)) }
	// far replaces one offset in ten by a far or extreme one of the same sign
	far := func(k int) int {
		if !g.Chance(1, 10) {
			return k
		}
		m := []int{17, 18, 40, 1000000, math.MaxInt64}[g.Intn(5)]
		if k < 0 {
			return -m
		}
		return m
	}
	tail := func(ops []string) []string {
		// a few random follow-ups on whatever the surgery left
		for i := 0; i < 3; i++ {
			switch g.Intn(4) {
			case 0:
				ops = append(ops, fmt.Sprintf("at r7 %s %d", reg(), g.Intn(9)-4))
			case 1:
				ops = append(ops, fmt.Sprintf("peek %s %d", reg(), g.Intn(9)-4))
			case 2:
				ops = append(ops, fmt.Sprintf("each %s %d", reg(), g.Intn(4)))
			default:
				ops = append(ops, fmt.Sprintf("join r6 %s %s", reg(), reg()))
			}
		}
		return ops
	}
	// (a) Join of two elements of the same ring: every size ≤ 7, every pair (hence every distance)
	maxSame := g.Scale(7, 9)
	for n := 1; n <= maxSame; n++ {
		for a := 0; a < n; a++ {
			for b := 0; b < n; b++ {
				ops := []string{"reset", "of r0" + seq(1, n), fmt.Sprintf("at r1 r0 %d", a), fmt.Sprintf("at r2 r0 %d", b), "join r3 r1 r2", "len r3", "len r1"}
				g.Each(tail(ops)) // (a)–(e) are exhaustive/fixed scopes: dealt to the generator shards
			}
		}
	}
	// (b) Join of elements of two different rings: sizes ≤ 4, every offset in each
	maxDiff := g.Scale(4, 6)
	for m := 1; m <= maxDiff; m++ {
		for n := 1; n <= maxDiff; n++ {
			for a := 0; a < m; a++ {
				for b := 0; b < n; b++ {
					ops := []string{"reset", "of r0" + seq(1, m), "of r1" + seq(11, n), fmt.Sprintf("at r2 r0 %d", a), fmt.Sprintf("at r3 r1 %d", b), "join r4 r2 r3", "len r4", "len r0"}
					g.Each(tail(ops))
				}
			}
		}
	}
	// (c) Pop of every element of every ring of size ≤ 7, then join it back somewhere
	for n := 1; n <= maxSame; n++ {
		for a := 0; a < n; a++ {
			ops := []string{"reset", "of r0" + seq(1, n), fmt.Sprintf("at r1 r0 %d", a), "pop r2 r1", "next r3 r1", "prev r4 r1", fmt.Sprintf("at r5 r0 %d", g.Intn(n)), "join r6 r5 r2"}
			g.Each(tail(ops))
		}
	}
	// (d) At / Peek at every offset around the cycle length, both directions
	for n := 1; n <= 5; n++ {
		ops := []string{"reset", "of r0" + seq(1, n)}
		for k := -n - 2; k <= n+2; k++ {
			ops = append(ops, fmt.Sprintf("at r1 r0 %d", k), fmt.Sprintf("peek r0 %d", k))
		}
		// far outside the cycle and at the ends of the int range, math.MinInt64 included (finding F9, fixed in
		// /repo 6530f72: At used to negate its argument, which overflows for MinInt64)
		for _, k := range []int{3 * n, -3 * n, 3*n + 1, -3*n - 1, 1000000, -1000000, math.MaxInt64, -math.MaxInt64, math.MinInt64} {
			ops = append(ops, fmt.Sprintf("at r1 r0 %d", k), fmt.Sprintf("peek r0 %d", k), "len r1")
		}
		for k := 0; k <= n+1; k++ {
			ops = append(ops, fmt.Sprintf("each r0 %d", k))
		}
		g.Each(ops)
	}
	// (e) the empty ring and New
	g.Each([]string{"reset", "of r0", "new r1 0", "new r2 -3", "len r0", "each r0 2", "at r3 r0 1", "peek r0 0", "isempty r0", "pop r4 r0", "join r5 r0 r1", "new r2 3", "join r5 r0 r2", "join r5 r2 r0", "next r5 r0", "prev r5 r0", "isempty r2"})
	// (f) random histories over eight element registers
	cases := g.Scale(300, 6000)
	maxOps := g.Scale(40, 150)
	for c := 0; c < cases; c++ {
		ops := []string{"reset"}
		next := 1
		// start with a few rings and second handles into them, so that most registers are live
		for i := 0; i < 3; i++ {
			n := 1 + g.Intn(5)
			ops = append(ops, fmt.Sprintf("of r%d%s", i, seq(next, n)), fmt.Sprintf("at r%d r%d %d", i+3, i, g.Intn(n)))
			next += n
		}
		nops := len(ops) + 4 + g.Intn(maxOps)
		for len(ops) < nops {
			switch k := g.Intn(100); {
			case k < 14:
				n := g.Intn(6)
				ops = append(ops, "of "+reg()+seq(next, n))
				next += n
			case k < 17:
				ops = append(ops, fmt.Sprintf("new %s %d", reg(), g.Intn(6)-1))
			case k < 42:
				ops = append(ops, fmt.Sprintf("join %s %s %s", reg(), reg(), reg()))
			case k < 52:
				ops = append(ops, fmt.Sprintf("pop %s %s", reg(), reg()))
			case k < 62:
				ops = append(ops, fmt.Sprintf("next %s %s", reg(), reg()))
			case k < 70:
				ops = append(ops, fmt.Sprintf("prev %s %s", reg(), reg()))
			case k < 82:
				ops = append(ops, fmt.Sprintf("at %s %s %d", reg(), reg(), far(g.Intn(13)-6)))
			case k < 89:
				ops = append(ops, fmt.Sprintf("peek %s %d", reg(), far(g.Intn(13)-6)))
			case k < 93:
				ops = append(ops, "len "+reg())
			case k < 98:
				ops = append(ops, fmt.Sprintf("each %s %d", reg(), g.Intn(5)))
			default:
				ops = append(ops, "isempty "+reg())
			}
		}
		g.Case(ops)
	}
}

func init() {
	register(&Stream{Name: "C10.stack", Gen: genC10stack, New: func(st *Stats) Runner { return &c10stack{s: &stack.Stack[int]{}, st: st} }})
	register(&Stream{Name: "C10.mlink", Gen: genC10mlink, Blind: true, New: func(st *Stats) Runner { return &c10mlink{l: &mlink.List[int]{}, st: st} }})
	register(&Stream{Name: "C10.mlinkq", Gen: genC10mlinkq, New: func(st *Stats) Runner { return &c10mlinkq{q: &mlink.Queue[int]{}, st: st} }})
	register(&Stream{Name: "C10.ring", Gen: genC10ring, New: func(st *Stats) Runner { return &c10ring{st: st} }})
}
