package main

import (
	"fmt"
	"reflect"
	"slices"
	"sort"
	"strconv"
	"strings"

	"github.com/creachadair/mds/mapset"
)

// C18: mapset.Set against the list model and mathematical sets.
//
// A small register machine: four set variables s0..s3 (initially nil maps).
// Every observation is
//
//	<result> <assignment> | <s0> <s1> <s2> <s3> | <alias matrix>
//
// where each variable is printed as nil or its sorted keys, with Len(); the
// assignment field says which variable now holds which map (nil, fresh, same =
// the map it held before, alias = an operand's map, other); the alias matrix
// lists the pairs of variables sharing one non-nil map (compared by map
// pointer).  Pop/Slice/Append results are printed in the order produced.

const c18NReg = 4

// The runner is generic over the MEMBER type K: the op lines carry integers, enc/dec convert (a bijection, so the
// driver needs nothing new).  `reset` runs Set[int]; `reset str` runs Set[string] (members c11strEnc: strings of
// different lengths, "" — the zero value Pop returns on an empty set — for 0).
type c18r[K comparable] struct {
	enc  func(int) K
	dec  func(K) int
	regs [c18NReg]mapset.Set[K]
	prev string // the previous op line of the current history
	st   *Stats
	high [c18NReg]int // most members the register's current map has held
}

// noteSizes labels growth past a size threshold and a shrink back below a quarter of the high-water mark.
func (r *c18r[K]) noteSizes() {
	for i, m := range r.regs {
		n := len(m)
		if n > r.high[i] {
			if c := lbClass(n); c != lbClass(r.high[i]) {
				r.st.Note("set-grown" + c)
			}
			r.high[i] = n
		} else if c := lbClass(r.high[i]); c != "" && n*4 < r.high[i] {
			r.st.Note("set-grown" + c + "-then-shrunk-below-a-quarter")
			r.high[i] = n
		}
	}
}

func c18Ptr[K comparable](m mapset.Set[K]) uintptr {
	if m == nil {
		return 0
	}
	return reflect.ValueOf(m).Pointer()
}

func (r *c18r[K]) ptrs() (p [c18NReg]uintptr) {
	for i, m := range r.regs {
		p[i] = c18Ptr(m)
	}
	return
}

func c18Reg(s string) int {
	n := atoi(strings.TrimPrefix(s, "s"))
	if n < 0 || n >= c18NReg {
		panic("bad register " + s)
	}
	return n
}

func c18Ints(ts []string) []int {
	out := make([]int, len(ts))
	for i, t := range ts {
		out[i] = atoi(t)
	}
	return out
}

func (r *c18r[K]) slice(vs []K) string {
	if vs == nil {
		return "nil"
	}
	return fmtInts(c11dec(vs, r.dec))
}

// ks converts integer tokens to members.
func (r *c18r[K]) ks(ts []string) []K { return c11enc(c18Ints(ts), r.enc) }

// kmap converts the keys of m.
func c18kmap[K comparable, V any](r *c18r[K], m map[int]V) map[K]V {
	out := make(map[K]V, len(m))
	for k, v := range m {
		out[r.enc(k)] = v
	}
	return out
}

func (r *c18r[K]) state() string {
	var sb strings.Builder
	for i, m := range r.regs {
		if i > 0 {
			sb.WriteByte(' ')
		}
		if m == nil {
			fmt.Fprintf(&sb, "nil/%d", m.Len())
			continue
		}
		keys := make([]int, 0, len(m))
		for k := range m {
			keys = append(keys, r.dec(k))
		}
		sort.Ints(keys)
		fmt.Fprintf(&sb, "%s/%d", fmtInts(keys), m.Len())
	}
	return sb.String()
}

func (r *c18r[K]) alias() string {
	p := r.ptrs()
	var pairs []string
	for i := 0; i < c18NReg; i++ {
		for j := i + 1; j < c18NReg; j++ {
			if p[i] != 0 && p[i] == p[j] {
				pairs = append(pairs, fmt.Sprintf("s%d=s%d", i, j))
			}
		}
	}
	if len(pairs) == 0 {
		return "-"
	}
	return strings.Join(pairs, ",")
}

// asgIdent classifies the map now held by a variable: own is the pointer the
// variable held before (0 for a constructor's destination, whose old content is
// irrelevant), args the operands' pointers, pre all pointers before the call.
func c18AsgIdent(post, own uintptr, args []uintptr, pre [c18NReg]uintptr) string {
	switch {
	case post == 0:
		return "nil"
	case own != 0 && post == own:
		return "same"
	case slices.Contains(args, post):
		return "alias"
	case slices.Contains(pre[:], post):
		return "other"
	}
	return "fresh"
}

func c18RetIdent(ret, recv uintptr, args []uintptr, pre [c18NReg]uintptr) string {
	switch {
	case ret == 0:
		return "nil"
	case ret == recv:
		return "recv"
	case slices.Contains(args, ret):
		return "arg"
	case slices.Contains(pre[:], ret):
		return "other"
	}
	return "fresh"
}

func (r *c18r[K]) obs(res, asg string) string {
	r.noteSizes()
	return res + " " + asg + " | " + r.state() + " | " + r.alias()
}

// ctor stores a constructor's result in d.
func (r *c18r[K]) ctor(d int, v mapset.Set[K], args ...uintptr) string {
	pre := r.ptrs()
	r.regs[d] = v
	return r.obs("-", fmt.Sprintf("s%d:%s", d, c18AsgIdent(c18Ptr(v), 0, args, pre)))
}

// mut reports a mutator's effect on variable i: ret is the returned set.
func (r *c18r[K]) mut(i int, pre [c18NReg]uintptr, ret mapset.Set[K], args ...uintptr) string {
	post := c18Ptr(r.regs[i])
	return r.obs("ret="+c18RetIdent(c18Ptr(ret), post, args, pre),
		fmt.Sprintf("s%d:%s", i, c18AsgIdent(post, pre[i], args, pre)))
}

func (r *c18r[K]) noteOperands(op string, a, b int) {
	s, t := r.regs[a], r.regs[b]
	switch {
	case a == b:
		r.st.Note(op + "-self")
	case s == nil && t == nil:
		r.st.Note(op + "-nil-nil")
	case s == nil:
		r.st.Note(op + "-nil-recv")
	case t == nil:
		r.st.Note(op + "-nil-arg")
	case len(s) == 0 || len(t) == 0:
		r.st.Note(op + "-empty-operand")
	case len(s) > len(t):
		r.st.Note(op + "-recv-larger")
	case len(s) < len(t):
		r.st.Note(op + "-recv-smaller")
	default:
		r.st.Note(op + "-same-size")
	}
	if a != b {
		lbNote(r.st, op+"-smaller-operand-members", min(len(s), len(t)))
	}
}

func c18Pairs(ts []string) map[int]int {
	m := make(map[int]int)
	for _, t := range ts {
		k, v, _ := strings.Cut(t, ":")
		m[atoi(k)] = atoi(v)
	}
	return m
}

func (r *c18r[K]) Exec(op []string) string {
	line := strings.Join(op, " ")
	if r.prev == "intersects s1 s0" && line == "has s0 1" {
		r.st.Note("exhaustive-history-case") // the closing queries of genC18Histories
	}
	r.prev = line
	switch op[0] {
	case "reset":
		r.regs = [c18NReg]mapset.Set[K]{}
		r.high = [c18NReg]int{}
		if len(op) > 1 {
			r.st.Note("members-" + op[1])
		}
		return r.obs("-", "-")
	case "setnil":
		return r.ctor(c18Reg(op[1]), nil)
	case "new":
		return r.ctor(c18Reg(op[1]), mapset.New(r.ks(op[2:])...))
	case "newsize":
		return r.ctor(c18Reg(op[1]), mapset.NewSize[K](atoi(op[2])))
	case "clone":
		d, s := c18Reg(op[1]), c18Reg(op[2])
		if r.regs[s] == nil {
			r.st.Note("clone-nil")
		}
		if d == s {
			r.st.Note("clone-onto-self")
		}
		return r.ctor(d, r.regs[s].Clone(), c18Ptr(r.regs[s]))
	case "intersect":
		d := c18Reg(op[1])
		var ss []mapset.Set[K]
		var ps []uintptr
		anyNil := false
		for _, t := range op[2:] {
			m := r.regs[c18Reg(t)]
			ss = append(ss, m)
			ps = append(ps, c18Ptr(m))
			anyNil = anyNil || m == nil
		}
		r.st.Note(fmt.Sprintf("intersect-%d-operands", min(len(ss), 6)))
		if len(ss) >= 3 {
			least := len(ss[0])
			for _, m := range ss {
				least = min(least, len(m))
			}
			lbNote(r.st, "intersect-3+-operands-smallest-members", least)
			for k, p := range ps {
				if p != 0 && slices.Contains(ps[:k], p) {
					r.st.Note("intersect-3+-operands-duplicate-operand")
					break
				}
			}
		}
		if anyNil {
			r.st.Note("intersect-nil-operand")
		}
		return r.ctor(d, mapset.Intersect(ss...), ps...)
	case "range":
		return r.ctor(c18Reg(op[1]), mapset.Range(slices.Values(r.ks(op[2:]))))
	case "keys":
		if len(op) == 3 && op[2] == "nil" {
			r.st.Note("keys-nil-map")
			return r.ctor(c18Reg(op[1]), mapset.Keys[K, int](nil))
		}
		return r.ctor(c18Reg(op[1]), mapset.Keys(c18kmap(r, c18Pairs(op[2:]))))
	case "keyst":
		// Keys at other VALUE types (the result must not depend on it): `keyst <struct|string|set|bool> d <pairs…|nil>`
		d, isNil := c18Reg(op[2]), len(op) == 4 && op[3] == "nil"
		var pairs map[int]int
		if !isNil {
			pairs = c18Pairs(op[3:])
		}
		r.st.Note("keys-value-type-" + op[1])
		if isNil {
			r.st.Note("keys-nil-map")
		}
		switch op[1] {
		case "struct":
			var m map[K]struct{}
			if !isNil {
				m = map[K]struct{}{}
				for k := range pairs {
					m[r.enc(k)] = struct{}{}
				}
			}
			return r.ctor(d, mapset.Keys(m))
		case "set":
			var m mapset.Set[K]
			if !isNil {
				m = mapset.Set[K]{}
				for k := range pairs {
					m[r.enc(k)] = struct{}{}
				}
			}
			return r.ctor(d, mapset.Keys(m), c18Ptr(m))
		case "string":
			var m map[K]string
			if !isNil {
				m = map[K]string{}
				for k, v := range pairs {
					m[r.enc(k)] = strconv.Itoa(v)
				}
			}
			return r.ctor(d, mapset.Keys(m))
		default:
			var m map[K]bool
			if !isNil {
				m = map[K]bool{}
				for k, v := range pairs {
					m[r.enc(k)] = v%2 == 0
				}
			}
			return r.ctor(d, mapset.Keys(m))
		}
	case "values":
		if len(op) == 3 && op[2] == "nil" {
			r.st.Note("values-nil-map")
			return r.ctor(c18Reg(op[1]), mapset.Values[int, K](nil))
		}
		return r.ctor(c18Reg(op[1]), mapset.Values(c18vmap(r, c18Pairs(op[2:]))))
	case "add":
		i := c18Reg(op[1])
		if r.regs[i] == nil {
			r.st.Note("add-nil-recv")
		}
		pre := r.ptrs()
		ret := r.regs[i].Add(r.ks(op[2:])...)
		return r.mut(i, pre, ret)
	case "addall":
		i, t := c18Reg(op[1]), c18Reg(op[2])
		r.noteOperands("addall", i, t)
		pre := r.ptrs()
		ret := r.regs[i].AddAll(r.regs[t])
		return r.mut(i, pre, ret, pre[t])
	case "remove":
		i := c18Reg(op[1])
		if r.regs[i] == nil {
			r.st.Note("remove-nil-recv")
		} else if len(r.regs[i]) < len(op)-2 {
			r.st.Note("remove-more-items-than-members")
		}
		pre := r.ptrs()
		ret := r.regs[i].Remove(r.ks(op[2:])...)
		return r.mut(i, pre, ret)
	case "removeall":
		i, t := c18Reg(op[1]), c18Reg(op[2])
		r.noteOperands("removeall", i, t)
		pre := r.ptrs()
		ret := r.regs[i].RemoveAll(r.regs[t])
		return r.mut(i, pre, ret, pre[t])
	case "pop":
		i := c18Reg(op[1])
		switch {
		case r.regs[i] == nil:
			r.st.Note("pop-nil")
		case len(r.regs[i]) == 0:
			r.st.Note("pop-empty")
		default:
			r.st.Note("pop-nonempty")
		}
		pre := r.ptrs()
		v := r.regs[i].Pop()
		return r.obs(fmt.Sprint(r.dec(v)), fmt.Sprintf("s%d:%s", i, c18AsgIdent(c18Ptr(r.regs[i]), pre[i], nil, pre)))
	case "clear":
		i := c18Reg(op[1])
		if r.regs[i] == nil {
			r.st.Note("clear-nil")
		}
		pre := r.ptrs()
		ret := r.regs[i].Clear()
		return r.mut(i, pre, ret)
	case "has":
		return r.obs(fmtBool(r.regs[c18Reg(op[1])].Has(r.enc(atoi(op[2])))), "-")
	case "len":
		return r.obs(fmt.Sprint(r.regs[c18Reg(op[1])].Len()), "-")
	case "isempty":
		return r.obs(fmtBool(r.regs[c18Reg(op[1])].IsEmpty()), "-")
	case "isnil":
		return r.obs(fmtBool(r.regs[c18Reg(op[1])] == nil), "-")
	case "intersects":
		i, t := c18Reg(op[1]), c18Reg(op[2])
		r.noteOperands("intersects", i, t)
		return r.obs(fmtBool(r.regs[i].Intersects(r.regs[t])), "-")
	case "issubset":
		i, t := c18Reg(op[1]), c18Reg(op[2])
		r.noteOperands("issubset", i, t)
		return r.obs(fmtBool(r.regs[i].IsSubset(r.regs[t])), "-")
	case "equals":
		i, t := c18Reg(op[1]), c18Reg(op[2])
		r.noteOperands("equals", i, t)
		return r.obs(fmtBool(r.regs[i].Equals(r.regs[t])), "-")
	case "hasall":
		i := c18Reg(op[1])
		if len(r.regs[i]) == 0 {
			r.st.Note(fmt.Sprintf("hasall-empty-recv-%d-items", min(len(op)-2, 1)))
		}
		lbNote(r.st, "hasall-recv-members", len(r.regs[i]))
		if n := len(r.regs[i]); n >= 8 && len(op)-2 > n {
			r.st.Note("hasall-more-items-than-members(duplicates)")
		}
		return r.obs(fmtBool(r.regs[i].HasAll(r.ks(op[2:])...)), "-")
	case "hasany":
		i := c18Reg(op[1])
		if len(r.regs[i]) == 0 {
			r.st.Note("hasany-empty-recv")
		}
		lbNote(r.st, "hasany-recv-members", len(r.regs[i]))
		return r.obs(fmtBool(r.regs[i].HasAny(r.ks(op[2:])...)), "-")
	case "slice":
		i := c18Reg(op[1])
		if len(r.regs[i]) == 0 {
			r.st.Note("slice-empty")
		} else if len(r.regs[i]) > 1 {
			r.st.Note("slice-several")
		}
		return r.obs(r.slice(r.regs[i].Slice()), "-")
	case "appendnil":
		i := c18Reg(op[1])
		if len(r.regs[i]) == 0 {
			r.st.Note("append-nil-slice-empty-set")
		}
		return r.obs(r.slice(r.regs[i].Append(nil)), "-")
	case "append":
		i := c18Reg(op[1])
		xs := r.ks(op[2:])
		vs := make([]K, len(xs), len(xs)+2*(len(xs)%3))
		copy(vs, xs)
		if len(r.regs[i]) == 0 {
			r.st.Note("append-empty-set")
		}
		return r.obs(r.slice(r.regs[i].Append(vs)), "-")
	case "shuffle":
		// map iteration order is arbitrary: nothing to do on the implementation
		return r.obs("-", "-")
	}
	return "bad-op"
}

// c18vmap converts the values of m.
func c18vmap[K comparable](r *c18r[K], m map[int]int) map[int]K {
	out := make(map[int]K, len(m))
	for k, v := range m {
		out[k] = r.enc(v)
	}
	return out
}

// c18 dispatches on the member type named on the reset line.
type c18 struct {
	st  *Stats
	cur Runner
}

func (r *c18) Exec(op []string) string {
	if op[0] == "reset" || r.cur == nil {
		if op[0] == "reset" && len(op) > 1 && op[1] == "str" {
			r.cur = &c18r[string]{st: r.st, enc: c11strEnc, dec: c11strDec}
		} else {
			r.cur = &c18r[int]{st: r.st, enc: c04ident, dec: c04ident}
		}
	}
	return r.cur.Exec(op)
}

// ---- generators ----

func c18Set(reg string, mask, n int) string {
	if mask < 0 {
		return "setnil " + reg
	}
	s := "new " + reg
	for i := 0; i < n; i++ {
		if mask&(1<<i) != 0 {
			s += fmt.Sprintf(" %d", i)
		}
	}
	return s
}

func c18Members(mask, n int) string {
	s := ""
	for i := 0; i < n; i++ {
		if mask > 0 && mask&(1<<i) != 0 {
			s += fmt.Sprintf(" %d", i)
		}
	}
	return s
}

// genC18Pairs: every ordered pair of operands over the subsets of {0,1,2,3} plus nil
// (17 x 17), every binary operation on each pair, both orders, and on each operand with itself.
// c18str is the case ops run on Set[string] (`reset str`).
func c18str(ops []string) []string {
	out := slices.Clone(ops)
	out[0] = "reset str"
	return out
}

func genC18Pairs(g *G) {
	const n = 4
	for a := -1; a < 1<<n; a++ {
		for b := -1; b < 1<<n; b++ {
			ops := []string{"reset", c18Set("s0", a, n), c18Set("s1", b, n),
				"isnil s0", "isempty s0", "len s0",
				"intersects s0 s1", "issubset s0 s1", "equals s0 s1",
				"hasall s0" + c18Members(b, n), "hasany s0" + c18Members(b, n),
				"intersect s2 s0 s1", "intersect s3 s1 s0", "equals s2 s3",
				"intersects s0 s0", "issubset s0 s0", "equals s0 s0", "intersect s2 s0", "intersect s2 s0 s0",
				"clone s3 s0", "addall s3 s1", "clone s3 s0", "removeall s3 s1",
				"clone s2 s0", "addall s2 s2", "removeall s2 s2",
				"slice s0", "append s1 7 8", "appendnil s1",
				"addall s0 s1", "issubset s1 s0", "removeall s0 s1", "intersects s0 s1", "pop s1", "pop s1",
			}
			g.Each(ops) // exhaustive part: dealt to the generator shards
			if (a+1+17*(b+1))%3 == 0 {
				g.Each(c18str(ops)) // a third of the pairs also on Set[string]
			}
		}
	}
	// every triple over {0,1,2} plus nil for the n-ary Intersect (9^3 cases would be too many lines
	// for the quick tier; the minimum-selection loop only depends on sizes, so vary sizes fully)
	const m = 3
	for a := -1; a < 1<<m; a++ {
		for b := -1; b < 1<<m; b++ {
			for c := -1; c < 1<<m; c += 1 + g.Scale(2, 0) {
				ops := []string{"reset", c18Set("s0", a, m), c18Set("s1", b, m), c18Set("s2", c, m),
					"intersect s3 s0 s1 s2", "intersect s3 s2 s1 s0", "intersect s3 s1 s2 s0 s1", "intersect s3"}
				g.Each(ops)
				if (a+b+c+3)%4 == 0 {
					g.Each(c18str(ops))
				}
			}
		}
	}
}

// genC18Histories (second audit §1 C18): the small exhaustive HISTORY part — every sequence of at most 3
// (thorough 4) mutators over the universe {0,1} on the two registers s0, s1 (both nil at the start), so that
// every mutator is applied to nil / empty / singleton / full / aliased receivers and operands in every order.
// The state of all registers and the alias matrix are part of every observation; four queries close a case.
func genC18Histories(g *G) {
	var muts []string
	for _, r := range []string{"s0", "s1"} {
		o := map[string]string{"s0": "s1", "s1": "s0"}[r]
		muts = append(muts, "add "+r+" 0", "add "+r+" 1", "remove "+r+" 0", "remove "+r+" 1", "clear "+r, "new "+r, "setnil "+r,
			"pop "+r, "addall "+r+" "+o, "removeall "+r+" "+o, "removeall "+r+" "+r, "clone "+r+" "+o, "intersect "+r+" s0 s1")
	}
	tail := []string{"equals s0 s1", "issubset s0 s1", "intersects s1 s0", "has s0 1"}
	nh := 0
	var rec func(prefix []string, depth int)
	rec = func(prefix []string, depth int) {
		if len(prefix) > 0 {
			ops := append([]string{"reset"}, prefix...)
			ops = append(ops, tail...)
			g.Each(ops)
			if nh++; nh%5 == 0 {
				g.Each(c18str(ops))
			}
		}
		if depth == 0 {
			return
		}
		for _, m := range muts {
			rec(append(slices.Clone(prefix), m), depth-1)
		}
	}
	rec(nil, g.Scale(3, 4))
}

// c18v: the i-th member of the large sets (distinct for i < 100003, negative ones included, no pattern a hash
// function or a bucket layout could line up with).
func c18v(i int) int { return (i*7919)%100003 - 5000 }

func c18list(vs []int) string {
	var sb strings.Builder
	for _, v := range vs {
		fmt.Fprintf(&sb, " %d", v)
	}
	return sb.String()
}

const c18Routes = 9

// c18LargeCase: one history around a set of n members.  s0 is built by the given route (every construction the
// API offers: New in bulk, Add one by one from the zero value, NewSize + bulk Add, NewSize(0) + Add in chunks,
// Range, Keys, Values, bulk Add with duplicates on a nil set, AddAll into a nil set); every predicate and the
// n-ary Intersect (3 to 6 operands, the smallest one in every position, duplicated and nil operands) are applied
// to it and to sets that differ from it in one member, are half of it, or are disjoint from it; then s0 is
// shrunk below a quarter (RemoveAll, bulk Remove), queried again, regrown (AddAll), and drained with Pop.
func c18LargeCase(g *G, n, route int, drain bool) []string {
	mem := make([]int, n)
	for i := range mem {
		mem[i] = c18v(i)
	}
	g.R.Shuffle(n, func(i, j int) { mem[i], mem[j] = mem[j], mem[i] })
	foreign := make([]int, n)
	for i := range foreign {
		foreign[i] = c18v(n + 1 + i)
	}
	shuffled := func(vs []int) []int {
		out := slices.Clone(vs)
		g.R.Shuffle(len(out), func(i, j int) { out[i], out[j] = out[j], out[i] })
		return out
	}
	all := c18list(mem)
	ops := []string{"reset"}
	switch route {
	case 0:
		ops = append(ops, "new s0"+all)
	case 1:
		for _, v := range mem {
			ops = append(ops, fmt.Sprintf("add s0 %d", v))
		}
	case 2:
		ops = append(ops, fmt.Sprintf("newsize s0 %d", n), "add s0"+all)
	case 3:
		ops = append(ops, "newsize s0 0")
		for lo := 0; lo < n; lo += 7 {
			ops = append(ops, "add s0"+c18list(mem[lo:min(lo+7, n)]))
		}
	case 4:
		ops = append(ops, "range s0"+all+c18list(mem[:n/3]))
	case 5:
		line := "keys s0"
		for i, v := range mem {
			line += fmt.Sprintf(" %d:%d", v, i%5)
		}
		ops = append(ops, line)
	case 6:
		line := "values s0"
		for i, v := range mem {
			line += fmt.Sprintf(" %d:%d", i, v)
		}
		for i := 0; i < n/4; i++ { // further keys with values already present
			line += fmt.Sprintf(" %d:%d", n+i, mem[i])
		}
		ops = append(ops, line)
	case 7:
		ops = append(ops, "setnil s0", "add s0"+all+c18list(shuffled(mem)[:n/2]))
	default:
		ops = append(ops, "new s1"+all, "addall s0 s1", "setnil s1")
	}
	last, mid := mem[n-1], mem[n/2]
	half := make([]int, 0, n/2+1)
	for i := 0; i < n; i += 2 {
		half = append(half, mem[i])
	}
	ops = append(ops, "len s0", fmt.Sprintf("has s0 %d", last), fmt.Sprintf("has s0 %d", foreign[0]),
		// s1: the same set, then one member fewer, then the same size with one member replaced
		"clone s1 s0", "equals s0 s1", "issubset s0 s1",
		fmt.Sprintf("remove s1 %d", mid), "equals s0 s1", "equals s1 s0", "issubset s0 s1", "issubset s1 s0", "intersects s0 s1",
		fmt.Sprintf("add s1 %d", foreign[1]), "equals s0 s1", "issubset s0 s1", "issubset s1 s0", "intersects s1 s0",
		// s2: every other member
		"new s2"+c18list(half), "issubset s2 s0", "issubset s0 s2", "intersects s2 s0", "intersects s0 s2", "equals s2 s0",
		// s3: disjoint and of the same size, then with one common member
		"new s3"+c18list(foreign[2:]), "intersects s0 s3", "intersects s3 s0", "issubset s3 s0", "equals s0 s3", "equals s3 s0",
		fmt.Sprintf("add s3 %d", last), "intersects s0 s3", "intersects s3 s0", "intersect s3 s0 s3",
		// HasAll / HasAny: every member, duplicates, more items than members, one stranger first / last
		"hasall s0"+c18list(shuffled(mem)), "hasall s0"+all+c18list(shuffled(mem)[:n/2+1]),
		"hasall s0"+all+fmt.Sprintf(" %d", foreign[0]), fmt.Sprintf("hasall s0 %d", foreign[0])+all,
		"hasall s0"+strings.Repeat(fmt.Sprintf(" %d", mid), n+1), "hasall s0"+c18list(half)+c18list(half)+fmt.Sprintf(" %d %d", foreign[3], mid),
		"hasall s2"+all, "hasall s2"+c18list(half)+c18list(half), "hasall s1"+all,
		"hasany s0"+c18list(foreign), "hasany s0"+c18list(foreign)+fmt.Sprintf(" %d", mid), "hasany s2"+c18list(foreign)+all,
		// n-ary Intersect: s0 (n), s1 (n, one member replaced), s2 (half), in every order, with duplicates and nil
		"intersect s3 s0 s1 s2", "intersect s3 s0 s2 s1", "intersect s3 s1 s0 s2", "intersect s3 s1 s2 s0", "intersect s3 s2 s0 s1", "intersect s3 s2 s1 s0",
		"intersect s3 s0 s1 s0", "intersect s3 s0 s0 s0", "intersect s3 s1 s0 s1 s0 s2", "intersect s3 s0 s2 s2 s1", "intersect s3 s0 s1 s2 s3",
		"intersect s3 s1 s0 s0 s1 s2 s2", "setnil s3", "intersect s3 s0 s3 s1", "setnil s3", "intersect s3 s3 s0 s1 s2", "setnil s3", "intersect s3 s0 s1 s3",
		"slice s2", "appendnil s2", "append s2 1 2 3",
		// shrink s0 below a quarter: first the half that is s2, then three quarters of what is left
		"removeall s0 s2", "len s0", "intersects s0 s2", "issubset s0 s1", "equals s0 s2")
	var rest []int
	for i := 1; i < n; i += 2 {
		rest = append(rest, mem[i])
	}
	cut := len(rest) - len(rest)/4
	ops = append(ops, "remove s0"+c18list(shuffled(rest[:cut]))+fmt.Sprintf(" %d", foreign[0]), "len s0",
		"issubset s0 s1", "issubset s1 s0", "intersects s0 s1", "intersects s1 s0", "intersects s0 s2", "equals s0 s1",
		"hasall s0"+c18list(rest[cut:]), "hasall s0"+all, "hasall s1"+c18list(rest[cut:]), "hasany s0"+c18list(half)+c18list(rest[:cut]), "hasany s0"+c18list(rest),
		"intersect s3 s1 s0 s2", "intersect s3 s0 s1 s1", "intersect s3 s1 s2 s0 s1", "intersect s3 s1 s1 s0",
		// regrow from the small state, from a clone of the small state
		"clone s3 s0", "addall s3 s2", "addall s0 s1", "equals s0 s1", "issubset s1 s0", "issubset s3 s0", "removeall s1 s0", "len s1", "addall s1 s2", "equals s1 s2",
		"clear s3", "len s3", fmt.Sprintf("add s3 %d", mid), fmt.Sprintf("hasall s3 %d %d", mid, mid), "intersect s2 s3 s0 s1")
	if drain {
		for i := 0; i < n+2; i++ {
			ops = append(ops, "pop s0")
		}
		ops = append(ops, "len s0", fmt.Sprintf("add s0 %d", mid), "equals s0 s3")
	}
	return ops
}

// genC18Large: the sizes at which a Go map changes representation (more than 8 members: buckets; every doubling
// at load factor 6.5) and the generic thresholds, from every construction route.
func genC18Large(g *G) {
	off := int(c13genSeed() / 1000)
	if off < 0 {
		off = -off
	}
	sizes := []int{9, 14, 17, 33, 65, 129, 300}
	perSize := 2
	if g.Thorough() {
		sizes = append(lbAround(513), 14, 27, 53, 105, 209, 300, 417, 833, 1024, 1025)
		perSize = 3
	}
	for si, n := range sizes {
		for k := 0; k < perSize; k++ {
			route := (si + off + k*4) % c18Routes
			ops := c18LargeCase(g, n, route, n <= 65 || (k == 0 && n <= 300))
			if k == 1 {
				ops = c18str(ops) // every size once on Set[string]
			}
			g.Each(ops)
		}
	}
}

// genC18Repeat: the same binary predicate on the same two set variables, asked again after the ARGUMENT (or the
// receiver) was changed by two mutations that restore its length (remove one member, add a non-member), and after a
// change that does alter the length — an answer remembered for "these two maps with these lengths" is stale then
// (round-7 seed).
func genC18Repeat(g *G) {
	for c := 0; c < g.Scale(120, 1200); c++ {
		a := g.R.Perm(7)[:1+g.Intn(4)]
		b := g.R.Perm(7)[:1+g.Intn(5)]
		if g.Chance(1, 2) { // make a ⊆ b often
			b = append(append([]int(nil), a...), b...)
		}
		in := func(xs []int, v int) bool {
			for _, x := range xs {
				if x == v {
					return true
				}
			}
			return false
		}
		var bs []int
		for _, v := range b {
			if !in(bs, v) {
				bs = append(bs, v)
			}
		}
		ops := []string{"reset", "new s0" + c18list(a), "new s1" + c18list(bs)}
		for step := 0; step < 2+g.Intn(3); step++ {
			q := g.Pick("issubset s0 s1", "equals s0 s1", "intersects s0 s1", "issubset s1 s0", "intersects s1 s0")
			ops = append(ops, q)
			tgt, cur := "s1", &bs
			if g.Chance(1, 4) {
				tgt, cur = "s0", &a
			}
			if len(*cur) > 0 {
				out := (*cur)[g.Intn(len(*cur))]
				nw := 7 + g.Intn(3)
				for in(*cur, nw) {
					nw++
				}
				ops = append(ops, fmt.Sprintf("remove %s %d", tgt, out), fmt.Sprintf("add %s %d", tgt, nw))
				var next []int
				for _, v := range *cur {
					if v != out {
						next = append(next, v)
					}
				}
				*cur = append(next, nw)
			}
			ops = append(ops, q)
		}
		g.Case(ops)
	}
}

func genC18(g *G) {
	genC18Pairs(g)
	genC18Histories(g)
	genC18Large(g)
	genC18Repeat(g)
	cases := g.Scale(500, 6000)
	maxOps := g.Scale(60, 250)
	for c := 0; c < cases; c++ {
		u := []int{3, 4, 6, 9}[g.Intn(4)] // universe -1 .. u-2
		val := func() int { return g.Intn(u) - 1 }
		vals := func(max int) string {
			s := ""
			for n := g.Intn(max + 1); n > 0; n-- {
				s += fmt.Sprintf(" %d", val())
			}
			return s
		}
		reg := func() string { return fmt.Sprintf("s%d", g.Intn(c18NReg)) }
		pairs := func() string {
			if g.Chance(1, 8) {
				return " nil"
			}
			s := ""
			for n := g.Intn(5); n > 0; n-- {
				s += fmt.Sprintf(" %d:%d", val(), val())
			}
			return s
		}
		ops := []string{"reset"}
		if c%3 == 1 {
			ops[0] = "reset str" // a fixed third of the random cases on Set[string]
		}
		nops := 5 + g.Intn(maxOps)
		for len(ops) < nops {
			switch k := g.Intn(100); {
			case k < 14:
				ops = append(ops, "add "+reg()+vals(4))
			case k < 22:
				ops = append(ops, "addall "+reg()+" "+reg())
			case k < 30:
				ops = append(ops, "remove "+reg()+vals(4))
			case k < 37:
				ops = append(ops, "removeall "+reg()+" "+reg())
			case k < 44:
				ops = append(ops, "pop "+reg())
			case k < 46:
				ops = append(ops, "clear "+reg())
			case k < 48:
				ops = append(ops, "setnil "+reg())
			case k < 52:
				ops = append(ops, "new "+reg()+vals(5))
			case k < 53:
				ops = append(ops, fmt.Sprintf("newsize %s %d", reg(), g.Intn(5)))
			case k < 57:
				ops = append(ops, "clone "+reg()+" "+reg())
			case k < 62:
				s := "intersect " + reg()
				for n := g.Intn(4); n > 0; n-- {
					s += " " + reg()
				}
				ops = append(ops, s)
			case k < 64:
				ops = append(ops, "range "+reg()+vals(5))
			case k < 65:
				ops = append(ops, "keys "+reg()+pairs())
			case k < 66:
				// the same at other value types (struct{}, string, bool, a Set itself), nil in a third of the cases
				if g.Chance(1, 3) {
					ops = append(ops, "keyst "+g.Pick("struct", "string", "set", "bool")+" "+reg()+" nil")
				} else {
					ops = append(ops, "keyst "+g.Pick("struct", "string", "set", "bool")+" "+reg()+pairs())
				}
			case k < 68:
				ops = append(ops, "values "+reg()+pairs())
			case k < 72:
				ops = append(ops, fmt.Sprintf("has %s %d", reg(), val()))
			case k < 73:
				ops = append(ops, g.Pick("len ", "isempty ", "isnil ")+reg())
			case k < 77:
				ops = append(ops, "intersects "+reg()+" "+reg())
			case k < 81:
				ops = append(ops, "issubset "+reg()+" "+reg())
			case k < 85:
				ops = append(ops, "equals "+reg()+" "+reg())
			case k < 88:
				ops = append(ops, "hasall "+reg()+vals(3))
			case k < 91:
				ops = append(ops, "hasany "+reg()+vals(3))
			case k < 94:
				ops = append(ops, "slice "+reg())
			case k < 96:
				ops = append(ops, "append "+reg()+vals(3))
			case k < 97:
				ops = append(ops, "appendnil "+reg())
			default:
				ops = append(ops, "shuffle "+reg()+vals(6))
			}
		}
		// drain one register with Pop: every member comes out exactly once, then zero values
		r := reg()
		for i := 0; i < u+1; i++ {
			ops = append(ops, "pop "+r)
		}
		g.Case(ops)
	}
}

func init() {
	register(&Stream{Name: "C18", Gen: genC18, New: func(st *Stats) Runner { return &c18{st: st} }})
}
