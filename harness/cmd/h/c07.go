package main

import (
	"fmt"
	"math"

	"github.com/creachadair/mds/queue"
)

// C07: queue.Queue against the ring-buffer model and the list deque.

type c07 struct {
	q  *queue.Queue[int]
	st *Stats
	lg lgTrack
}

// wrapNote labels a wrap of the head or tail index by the size of the buffer it happens in, and by whether that
// size is a power of two (a mask is a modulo only then).
func (r *c07) wrapNote(what string, cp int) {
	r.st.Note(what)
	if cl := c10sizeClass(cp); cl != "" {
		r.st.Note(what + "-cap" + cl)
		if cp&(cp-1) != 0 {
			r.st.Note(what + "-cap-not-pow2" + cl)
		}
	}
}

// obs: the result of the op, the observable state (Len, IsEmpty, Front, Slice) and — lock-step with the
// model (audit item A2) — the ring-buffer bookkeeping head, n, len(vs) read through the overlay hook.
func (r *c07) obs(res string) string {
	if blindObs { // second, query-free execution (Stream.Blind)
		return res
	}
	q := r.q
	head, n, cp := queue.VerifState(q)
	r.lg.see(r.st, "queue", q.Len())
	return fmt.Sprintf("%s len=%d empty=%s front=%d slice=%s head=%d n=%d cap=%d", res, q.Len(), fmtBool(q.IsEmpty()), q.Front(), fmtInts(q.Slice()), head, n, cp)
}

func (r *c07) Exec(op []string) string {
	switch op[0] {
	case "reset":
		switch op[1] {
		case "zero":
			r.q = &queue.Queue[int]{}
		case "new":
			r.q = queue.New[int]()
		case "size":
			r.q = queue.NewSize[int](atoi(op[2]))
			if n := atoi(op[2]); n >= 10 && n < 300 {
				r.st.Note("newsize-10..299")
			}
			if n := atoi(op[2]); n > 2 && n&(n-1) != 0 {
				r.st.Note("newsize-not-pow2" + c10sizeClass(n))
			}
		}
		r.lg.reset()
		return r.obs("-")
	case "add", "push":
		head, n, cp := queue.VerifState(r.q)
		if n == cp {
			if head > 0 {
				r.st.Note(op[0] + "-rotate-grow")
				if cp > 32 {
					r.st.Note(op[0] + "-rotate-grow-cap>32")
				}
			} else if cp > 0 {
				r.st.Note(op[0] + "-grow")
			}
		} else if op[0] == "add" && head+n >= cp {
			r.wrapNote("add-wrap", cp)
		} else if op[0] == "push" && head == 0 {
			r.wrapNote("push-wrap-back", cp)
		}
		if op[0] == "add" {
			r.q.Add(atoi(op[1]))
		} else {
			r.q.Push(atoi(op[1]))
		}
		return r.obs("-")
	case "pop":
		head, n, cp := queue.VerifState(r.q)
		if n > 1 && head == cp-1 {
			r.wrapNote("pop-wrap", cp)
		}
		v, ok := r.q.Pop()
		return r.obs(fmtPop(v, ok))
	case "poplast":
		head, n, cp := queue.VerifState(r.q)
		if n > 0 && head+n-1 >= cp {
			r.wrapNote("poplast-wrapped", cp)
		}
		v, ok := r.q.PopLast()
		return r.obs(fmtPop(v, ok))
	case "clear":
		r.q.Clear()
		return r.obs("-")
	case "peek":
		k := atoi(op[1])
		if k < 0 {
			r.st.Note("peek-neg")
		}
		if n := r.q.Len(); k > n+1 || k < -n-2 {
			r.st.Note("peek-far-out-of-range")
		}
		v, ok := r.q.Peek(k)
		return r.obs(fmtPop(v, ok))
	case "each":
		k := atoi(op[1])
		var got []int
		r.q.Each(func(v int) bool {
			got = append(got, v)
			return len(got) <= k
		})
		return r.obs(fmtInts(got))
	}
	return "bad-op"
}

// genC07large: a few LARGE queues (beyond 256 and 512 elements, where Go's append stops doubling):
// exactly full, wrapped deep into the buffer, then regrown from either end — size-dependent paths that the
// many small histories cannot reach.
func genC07large(g *G, next *int) {
	// (second audit §1 C07: also the medium sizes 10..299, and the first operation on the exactly full, rotated
	// buffer is a Push in every other NewSize case — the grow-while-rotated path of Push at every capacity)
	sizes := []int{300, 512, 700, 12, 33, 64, 100, 128, 10 + g.Intn(120), 10 + g.Intn(120), 130 + g.Intn(170)}
	if g.Thorough() {
		sizes = append(sizes, 1024, 2048, 4096)
		for j := 0; j < 40; j++ {
			sizes = append(sizes, 10+g.Intn(290))
		}
	}
	for i, n := range sizes {
		if !g.Mine(i) {
			continue
		}
		for v, start := range []string{fmt.Sprintf("reset size %d", n), "reset zero", fmt.Sprintf("reset size %d", n)} {
			ops := []string{start}
			add := func(k int) {
				for j := 0; j < k; j++ {
					ops = append(ops, fmt.Sprintf("add %d", *next))
					*next++
				}
			}
			add(n)
			shift := n*7/8 + g.Intn(n/16+1) // move the head deep into the buffer
			for j := 0; j < shift; j++ {
				ops = append(ops, "pop")
			}
			add(shift)                // (for NewSize(n): exactly full and wrapped)
			for j := 0; j < 40; j++ { // keep adding until the buffer had to regrow, from both ends
				if (j+v)%3 == 2 { // v = 2: the very first operation on the full buffer is a Push
					ops = append(ops, fmt.Sprintf("push %d", *next))
				} else {
					ops = append(ops, fmt.Sprintf("add %d", *next))
				}
				*next++
			}
			ops = append(ops, "peek 0", "peek -1", fmt.Sprintf("peek %d", n/2), "poplast", "pop", "each 3")
			g.Case(ops)
		}
	}
}

// genC07drain: queues grown past a threshold (33..520, thorough 1025 and 2049), drained below a quarter of it,
// regrown past it, cleared, regrown, emptied — Add-heavy (Add/Pop: the head moves forward) and Push-heavy
// (Push/PopLast: the head moves backwards) and mixed, from the zero value, New and NewSize at and around powers of
// two and at sizes that are NOT powers of two (3, 5, 6, 7, 100, 300, 848, the target itself); every step observed.
func genC07drain(g *G, next *int) {
	sizes := []int{33, 65, 130, 260, 520}
	if g.Thorough() {
		sizes = append(sizes, 40, 64, 129, 257, 513, 700, 1025, 2049)
	}
	starts := []int{-2, -1, 3, 5, 6, 7, 100, 300, 848, 0, 16, 64} // -2 zero value, -1 New, 0 NewSize(target)
	off := g.Intn(len(starts))
	for i, S := range sizes {
		for heavy := 0; heavy < 3; heavy++ {
			if S >= 500 && !g.Thorough() && heavy != (i+off)%3 {
				continue // the model costs O(cap) per line: one of the three in the quick tier
			}
			k := starts[(i*3+heavy+off)%len(starts)]
			var ops []string
			switch {
			case k == -2:
				ops = append(ops, "reset zero")
			case k == -1:
				ops = append(ops, "reset new")
			case k == 0:
				ops = append(ops, fmt.Sprintf("reset size %d", S))
			default:
				ops = append(ops, fmt.Sprintf("reset size %d", k))
			}
			n := 0
			grow := func(to int, mode int) {
				for j := 0; n < to; j++ {
					name := "add"
					if mode == 1 || (mode == 2 && j%3 == 1) {
						name = "push"
					}
					ops = append(ops, fmt.Sprintf("%s %d", name, *next))
					*next++
					n++
				}
			}
			shrink := func(to int, mode int) {
				for j := 0; n > to; j++ {
					name := "pop"
					if mode == 1 || (mode == 2 && j%3 == 1) {
						name = "poplast"
					}
					ops = append(ops, name)
					n--
				}
			}
			grow(S, heavy)
			ops = append(ops, "peek 0", "peek -1", fmt.Sprintf("peek %d", S-1), fmt.Sprintf("peek %d", S), fmt.Sprintf("peek %d", -S), "each 2")
			shrink(S/4-1, heavy)
			ops = append(ops, "peek 0", "peek -1", "each 2")
			grow(S+3, (heavy+1)%3) // the other end
			ops = append(ops, fmt.Sprintf("peek %d", S+2), "peek -1")
			shrink(S/2, (heavy+2)%3)
			ops = append(ops, "clear", "pop", "poplast")
			n = 0
			grow(20, heavy)
			shrink(0, (heavy+1)%3)
			ops = append(ops, "pop", "poplast", "peek 0")
			g.Each(ops)
		}
	}
}

// genC07sparse: a LARGE buffer holding FEW elements (NewSize(k), k = 3, 5, 6, 7, 100, 300, 848, 1025, 4097 and the
// powers of two next to them): the head is walked forward twice around the buffer by Pop+Add pairs and backward by
// PopLast+Push pairs, so that every wrap test is taken at every index of a buffer whose length is not a power of
// two — at the cost of a few elements per observation.
func genC07sparse(g *G, next *int) {
	// (the model costs O(cap) per line, a lap O(cap²): 1025 gets one forward lap in the quick tier, 4097 is thorough)
	ks := []int{3, 5, 6, 7, 100, 300, 848, 1025, 64, 128}
	if g.Thorough() {
		ks = append(ks, 33, 65, 257, 513, 1024, 2049, 4096, 4097, 5000)
	}
	for _, k := range ks {
		laps := 2 * k
		back := k
		if k > 1000 && !g.Thorough() {
			laps, back = k, k/8
		}
		ops := []string{fmt.Sprintf("reset size %d", k)}
		fill := min(k, 3+g.Intn(20))
		for j := 0; j < fill; j++ {
			ops = append(ops, fmt.Sprintf("add %d", *next))
			*next++
		}
		for j := 0; j < laps+5; j++ {
			ops = append(ops, "pop", fmt.Sprintf("add %d", *next))
			*next++
			if j%97 == 0 {
				ops = append(ops, "peek -1", fmt.Sprintf("peek %d", fill-1), "each 1")
			}
		}
		for j := 0; j < back+5; j++ {
			ops = append(ops, "poplast", fmt.Sprintf("push %d", *next))
			*next++
			if j%97 == 0 {
				ops = append(ops, "peek 0", fmt.Sprintf("peek %d", -fill))
			}
		}
		// fill it exactly, wrapped, then one more from either end (the grow path from a rotated full buffer)
		if k <= 900 || g.Thorough() && k <= 2100 {
			for j := fill; j < k; j++ {
				ops = append(ops, fmt.Sprintf("add %d", *next))
				*next++
			}
			ops = append(ops, g.Pick("push", "add")+fmt.Sprintf(" %d", *next), "peek -1", "peek 0", "pop", "poplast")
			*next++
		}
		g.Each(ops)
	}
}

func genC07(g *G) {
	cases := g.Scale(600, 20000)
	maxOps := g.Scale(120, 600)
	next := 1
	genC07drain(g, &next)
	genC07sparse(g, &next)
	genC07large(g, &next)
	for c := 0; c < cases; c++ {
		var ops []string
		switch g.Intn(4) {
		case 0:
			ops = append(ops, "reset zero")
		case 1:
			ops = append(ops, "reset new")
		default:
			n := g.Intn(10)
			if g.Chance(1, 6) {
				n = 10 + g.Intn(55)
			}
			ops = append(ops, fmt.Sprintf("reset size %d", n))
		}
		n := 0 // shadow length, to steer the generator only
		nops := 5 + g.Intn(maxOps)
		// phase weights: bias towards filling, then churning with head in the middle
		for len(ops) < nops {
			switch k := g.Intn(100); {
			case k < 28:
				ops = append(ops, fmt.Sprintf("add %d", next))
				next++
				n++
			case k < 48:
				ops = append(ops, fmt.Sprintf("push %d", next))
				next++
				n++
			case k < 62:
				ops = append(ops, "pop")
				if n > 0 {
					n--
				}
			case k < 74:
				ops = append(ops, "poplast")
				if n > 0 {
					n--
				}
			case k < 76:
				ops = append(ops, "clear")
				n = 0
			case k < 90:
				ops = append(ops, fmt.Sprintf("peek %d", g.Intn(2*n+4)-n-2))
			case k < 94:
				ops = append(ops, fmt.Sprintf("each %d", g.Intn(n+2)))
			default:
				// churn: pop a few then add the same number, moving head without changing length
				m := 1 + g.Intn(3)
				for i := 0; i < m; i++ {
					if g.Chance(1, 2) {
						ops = append(ops, "pop", fmt.Sprintf("add %d", next))
					} else {
						ops = append(ops, "poplast", fmt.Sprintf("push %d", next))
					}
					next++
				}
			}
		}
		// every peek offset around the valid range at the end
		for k := -n - 2; k <= n+1; k++ {
			ops = append(ops, fmt.Sprintf("peek %d", k))
		}
		// … and far outside it (Peek adds the length to a negative offset: no wrap-around may make these valid)
		if c%8 == 0 {
			for _, k := range []int{n + 10, -n - 10, 1000000, -1000000, 1 << 32, -(1 << 32), math.MaxInt64, math.MinInt64, math.MinInt64 + n, math.MaxInt64 - n} {
				ops = append(ops, fmt.Sprintf("peek %d", k))
			}
		}
		g.Case(ops)
	}
}

func init() {
	register(&Stream{Name: "C07", Gen: genC07, Blind: true, New: func(st *Stats) Runner { return &c07{q: &queue.Queue[int]{}, st: st} }})
}
