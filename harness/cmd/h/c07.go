package main

import (
	"fmt"
	"math"

	"github.com/creachadair/mds/queue"
)

// C07: queue.Queue against the ring-buffer model and the list deque.

type c07 struct {
	q  *queue.Queue[int]
	st *Stats
}

// obs: the result of the op, the observable state (Len, IsEmpty, Front, Slice) and — lock-step with the
// model (audit item A2) — the ring-buffer bookkeeping head, n, len(vs) read through the overlay hook.
func (r *c07) obs(res string) string {
	q := r.q
	head, n, cp := queue.VerifState(q)
	return fmt.Sprintf("%s len=%d empty=%s front=%d slice=%s head=%d n=%d cap=%d", res, q.Len(), fmtBool(q.IsEmpty()), q.Front(), fmtInts(q.Slice()), head, n, cp)
}

func (r *c07) Exec(op []string) string {
	switch op[0] {
	case "reset":
		switch op[1] {
		case "zero":
			r.q = &queue.Queue[int]{}
		case "new":
			r.q = queue.New[int]()
		case "size":
			r.q = queue.NewSize[int](atoi(op[2]))
			if n := atoi(op[2]); n >= 10 && n < 300 {
				r.st.Note("newsize-10..299")
			}
		}
		return r.obs("-")
	case "add", "push":
		head, n, cp := queue.VerifState(r.q)
		if n == cp {
			if head > 0 {
				r.st.Note(op[0] + "-rotate-grow")
				if cp > 32 {
					r.st.Note(op[0] + "-rotate-grow-cap>32")
				}
			} else if cp > 0 {
				r.st.Note(op[0] + "-grow")
			}
		} else if op[0] == "add" && head+n >= cp {
			r.st.Note("add-wrap")
		} else if op[0] == "push" && head == 0 {
			r.st.Note("push-wrap-back")
		}
		if op[0] == "add" {
			r.q.Add(atoi(op[1]))
		} else {
			r.q.Push(atoi(op[1]))
		}
		return r.obs("-")
	case "pop":
		head, n, cp := queue.VerifState(r.q)
		if n > 1 && head == cp-1 {
			r.st.Note("pop-wrap")
		}
		v, ok := r.q.Pop()
		return r.obs(fmtPop(v, ok))
	case "poplast":
		head, n, cp := queue.VerifState(r.q)
		if n > 0 && head+n-1 >= cp {
			r.st.Note("poplast-wrapped")
		}
		v, ok := r.q.PopLast()
		return r.obs(fmtPop(v, ok))
	case "clear":
		r.q.Clear()
		return r.obs("-")
	case "peek":
		k := atoi(op[1])
		if k < 0 {
			r.st.Note("peek-neg")
		}
		if n := r.q.Len(); k > n+1 || k < -n-2 {
			r.st.Note("peek-far-out-of-range")
		}
		v, ok := r.q.Peek(k)
		return r.obs(fmtPop(v, ok))
	case "each":
		k := atoi(op[1])
		var got []int
		r.q.Each(func(v int) bool {
			got = append(got, v)
			return len(got) <= k
		})
		return r.obs(fmtInts(got))
	}
	return "bad-op"
}

// genC07large: a few LARGE queues (beyond 256 and 512 elements, where Go's append stops doubling):
// exactly full, wrapped deep into the buffer, then regrown from either end — size-dependent paths that the
// many small histories cannot reach.
func genC07large(g *G, next *int) {
	// (second audit §1 C07: also the medium sizes 10..299, and the first operation on the exactly full, rotated
	// buffer is a Push in every other NewSize case — the grow-while-rotated path of Push at every capacity)
	sizes := []int{300, 512, 700, 12, 33, 64, 100, 128, 10 + g.Intn(120), 10 + g.Intn(120), 130 + g.Intn(170)}
	if g.Thorough() {
		sizes = append(sizes, 1024, 2048, 4096)
		for j := 0; j < 40; j++ {
			sizes = append(sizes, 10+g.Intn(290))
		}
	}
	for i, n := range sizes {
		if !g.Mine(i) {
			continue
		}
		for v, start := range []string{fmt.Sprintf("reset size %d", n), "reset zero", fmt.Sprintf("reset size %d", n)} {
			ops := []string{start}
			add := func(k int) {
				for j := 0; j < k; j++ {
					ops = append(ops, fmt.Sprintf("add %d", *next))
					*next++
				}
			}
			add(n)
			shift := n*7/8 + g.Intn(n/16+1) // move the head deep into the buffer
			for j := 0; j < shift; j++ {
				ops = append(ops, "pop")
			}
			add(shift)                // (for NewSize(n): exactly full and wrapped)
			for j := 0; j < 40; j++ { // keep adding until the buffer had to regrow, from both ends
				if (j+v)%3 == 2 { // v = 2: the very first operation on the full buffer is a Push
					ops = append(ops, fmt.Sprintf("push %d", *next))
				} else {
					ops = append(ops, fmt.Sprintf("add %d", *next))
				}
				*next++
			}
			ops = append(ops, "peek 0", "peek -1", fmt.Sprintf("peek %d", n/2), "poplast", "pop", "each 3")
			g.Case(ops)
		}
	}
}

func genC07(g *G) {
	cases := g.Scale(600, 20000)
	maxOps := g.Scale(120, 600)
	next := 1
	genC07large(g, &next)
	for c := 0; c < cases; c++ {
		var ops []string
		switch g.Intn(4) {
		case 0:
			ops = append(ops, "reset zero")
		case 1:
			ops = append(ops, "reset new")
		default:
			n := g.Intn(10)
			if g.Chance(1, 6) {
				n = 10 + g.Intn(55)
			}
			ops = append(ops, fmt.Sprintf("reset size %d", n))
		}
		n := 0 // shadow length, to steer the generator only
		nops := 5 + g.Intn(maxOps)
		// phase weights: bias towards filling, then churning with head in the middle
		for len(ops) < nops {
			switch k := g.Intn(100); {
			case k < 28:
				ops = append(ops, fmt.Sprintf("add %d", next))
				next++
				n++
			case k < 48:
				ops = append(ops, fmt.Sprintf("push %d", next))
				next++
				n++
			case k < 62:
				ops = append(ops, "pop")
				if n > 0 {
					n--
				}
			case k < 74:
				ops = append(ops, "poplast")
				if n > 0 {
					n--
				}
			case k < 76:
				ops = append(ops, "clear")
				n = 0
			case k < 90:
				ops = append(ops, fmt.Sprintf("peek %d", g.Intn(2*n+4)-n-2))
			case k < 94:
				ops = append(ops, fmt.Sprintf("each %d", g.Intn(n+2)))
			default:
				// churn: pop a few then add the same number, moving head without changing length
				m := 1 + g.Intn(3)
				for i := 0; i < m; i++ {
					if g.Chance(1, 2) {
						ops = append(ops, "pop", fmt.Sprintf("add %d", next))
					} else {
						ops = append(ops, "poplast", fmt.Sprintf("push %d", next))
					}
					next++
				}
			}
		}
		// every peek offset around the valid range at the end
		for k := -n - 2; k <= n+1; k++ {
			ops = append(ops, fmt.Sprintf("peek %d", k))
		}
		// … and far outside it (Peek adds the length to a negative offset: no wrap-around may make these valid)
		if c%8 == 0 {
			for _, k := range []int{n + 10, -n - 10, 1000000, -1000000, 1 << 32, -(1 << 32), math.MaxInt64, math.MinInt64, math.MinInt64 + n, math.MaxInt64 - n} {
				ops = append(ops, fmt.Sprintf("peek %d", k))
			}
		}
		g.Case(ops)
	}
}

func init() {
	register(&Stream{Name: "C07", Gen: genC07, New: func(st *Stats) Runner { return &c07{q: &queue.Queue[int]{}, st: st} }})
}
