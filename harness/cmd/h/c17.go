package main

import (
	"fmt"
	"math"
	"runtime"
	"strconv"
	"strings"
	"unsafe"

	"github.com/creachadair/mds/slice"
)

// C17: the slice utilities against the (backing array, off, len, cap) model.
//
// State: one backing array `base` and the argument slice
// vs = base[off : off+len : off+cap].  Every returned subslice is observed by
// its elements, len, cap and the index in base of its first cell (pointer
// identity), and by appending a sentinel to it and printing base afterwards
// (an unclipped subslice overwrites its neighbour).

// `partitiont|rotatet|chunkst|batchest <ty> <arg>` make the same call at another ELEMENT type: the backing array
// is converted cell by cell (ty = str: strings, see c11strEnc; zs / za: the zero-size types struct{} / [0]int), the
// argument slice is the same window of the converted array, the call and the sentinel appends happen there, the
// observation is printed with the cells converted back, and the converted-back array replaces `base`.  A zero-size
// type keeps no values (every cell reads back as 0) and has no addresses to tell cells apart: positions are printed
// as -3 (-1 without capacity, as usual); the driver does the same to the model's observation.
type c17 struct {
	base []int
	vs   []int
	st   *Stats
}

// c17off is the index in base of the first cell of r's backing store (-1 when
// r has no capacity, -2 when r does not alias base).
func (r *c17) off(s []int) int {
	if cap(s) == 0 {
		return -1
	}
	p := &s[:1][0]
	for i := range r.base {
		if &r.base[i] == p {
			return i
		}
	}
	return -2
}

func (r *c17) sub(s []int) string {
	return fmt.Sprintf("res=%s len=%d cap=%d off=%d", fmtInts(s), len(s), cap(s), r.off(s))
}

func (r *c17) subs(ss [][]int) string {
	var lens, caps, offs, cat []int
	for _, s := range ss {
		lens = append(lens, len(s))
		caps = append(caps, cap(s))
		offs = append(offs, r.off(s))
		cat = append(cat, s...)
	}
	return fmt.Sprintf("n=%d lens=%s caps=%s offs=%s cat=%s", len(ss), fmtInts(lens), fmtInts(caps), fmtInts(offs), fmtInts(cat))
}

func c17Panic(x any) string {
	if _, ok := x.(runtime.Error); ok {
		return "panic:" + panicClass(x)
	}
	return "panic:" + strings.ReplaceAll(fmt.Sprint(x), " ", "_")
}

// c17call runs f, turning a panic into an observation that tells a runtime
// error (index, bounds, divzero) from the package's own panic message.
func (r *c17) call(f func() string) (out string) {
	defer func() {
		if x := recover(); x != nil {
			out = c17Panic(x)
			r.st.Note(out)
		}
	}()
	return f()
}

func c17csv(t string) []int {
	if t == "-" {
		return []int{}
	}
	var out []int
	for _, f := range strings.Split(t, ",") {
		out = append(out, atoi(f))
	}
	return out
}

// c17t is the state converted to element type T.
type c17t[T any] struct {
	base, vs []T
	enc      func(int) T
	dec      func(T) int
}

func (t *c17t[T]) off(s []T) int {
	if cap(s) == 0 {
		return -1
	}
	var z T
	if unsafe.Sizeof(z) == 0 {
		return -3
	}
	p := &s[:1][0]
	for i := range t.base {
		if &t.base[i] == p {
			return i
		}
	}
	return -2
}

func (t *c17t[T]) ints(s []T) string { return fmtInts(c11dec(s, t.dec)) }

func (t *c17t[T]) sub(s []T) string {
	return fmt.Sprintf("res=%s len=%d cap=%d off=%d", t.ints(s), len(s), cap(s), t.off(s))
}

func (t *c17t[T]) subs(ss [][]T) string {
	var lens, caps, offs []int
	var cat []T
	for _, s := range ss {
		lens = append(lens, len(s))
		caps = append(caps, cap(s))
		offs = append(offs, t.off(s))
		cat = append(cat, s...)
	}
	return fmt.Sprintf("n=%d lens=%s caps=%s offs=%s cat=%s", len(ss), fmtInts(lens), fmtInts(caps), fmtInts(offs), t.ints(cat))
}

// c17typed runs `op arg` at element type T (see the comment of c17).
func c17typed[T any](r *c17, op, arg string, enc func(int) T, dec func(T) int) string {
	t := &c17t[T]{enc: enc, dec: dec}
	if r.base != nil {
		t.base = c11enc(r.base, enc)
	}
	switch {
	case r.vs == nil:
	case cap(r.vs) == 0:
		t.vs = t.base[:0:0]
	default:
		off := r.off(r.vs)
		t.vs = t.base[off : off+len(r.vs) : off+cap(r.vs)]
	}
	defer func() {
		for i, v := range t.base {
			r.base[i] = dec(v)
		}
	}()
	return r.call(func() string {
		switch op {
		case "partitiont":
			mask, _ := strconv.ParseUint(arg, 10, 64)
			res := slice.Partition(t.vs, func(v T) bool { return mask>>(uint(dec(v))%32)&1 == 1 })
			o := t.sub(res)
			vs := t.ints(t.vs)
			_ = append(res, enc(99))
			return fmt.Sprintf("%s vs=%s app=%s", o, vs, t.ints(t.base))
		case "rotatet":
			slice.Rotate(t.vs, atoi(arg))
			return fmt.Sprintf("ok vs=%s base=%s", t.ints(t.vs), t.ints(t.base))
		case "chunkst", "batchest":
			var ss [][]T
			if op == "chunkst" {
				ss = slice.Chunks(t.vs, atoi(arg))
			} else {
				ss = slice.Batches(t.vs, atoi(arg))
			}
			o := t.subs(ss)
			for i, s := range ss {
				_ = append(s, enc(-1-i))
			}
			return fmt.Sprintf("%s app=%s", o, t.ints(t.base))
		}
		return "bad-op"
	})
}

func (r *c17) Exec(op []string) string {
	if op[0] != "reset" && op[0] != "stripe" {
		r.noteLen(op[0])
	}
	switch op[0] {
	case "partitiont", "rotatet", "chunkst", "batchest":
		if len(op) != 3 {
			return "bad-op"
		}
		r.st.Note(op[0] + "-" + op[1])
		switch op[1] {
		case "str":
			return c17typed(r, op[0], op[2], c11strEnc, c11strDec)
		case "zs":
			return c17typed(r, op[0], op[2], func(int) struct{} { return struct{}{} }, func(struct{}) int { return 0 })
		case "za":
			return c17typed(r, op[0], op[2], func(int) [0]int { return [0]int{} }, func([0]int) int { return 0 })
		}
		return "bad-op"
	case "reset":
		off, n, cp := atoi(op[1]), atoi(op[2]), atoi(op[3])
		r.base = make([]int, len(op)-4)
		for i, t := range op[4:] {
			r.base[i] = atoi(t)
		}
		r.vs = r.base[off : off+n : off+cp]
		if len(op) == 4 && off == 0 && n == 0 && cp == 0 {
			// `reset 0 0 0` without cells: the NIL slice (the same layout as far as the model is concerned: no
			// backing array, length and capacity 0)
			r.base, r.vs = nil, nil
			r.st.Note("nil-slice")
		}
		return fmt.Sprintf("vs=%s len=%d cap=%d base=%s", fmtInts(r.vs), len(r.vs), cap(r.vs), fmtInts(r.base))

	case "partition":
		mask, _ := strconv.ParseUint(op[1], 10, 64)
		keep := func(v int) bool { return mask>>(uint(v)%32)&1 == 1 }
		// classify the input for the distribution figures
		nk, swap := 0, false
		seenDrop := false
		for _, v := range r.vs {
			if keep(v) {
				nk++
				if seenDrop {
					swap = true
				}
			} else {
				seenDrop = true
			}
		}
		switch {
		case len(r.vs) == 0 && cap(r.vs) > 0:
			r.st.Note("partition-empty-spare-cap(unclipped)")
		case len(r.vs) == 0:
			r.st.Note("partition-empty")
		case swap:
			r.st.Note("partition-swaps")
		case nk == len(r.vs):
			r.st.Note("partition-all-kept")
		case nk == 0:
			r.st.Note("partition-none-kept")
		default:
			r.st.Note("partition-already-ordered")
		}
		lbNote(r.st, "partition-kept", nk)
		lbNote(r.st, "partition-dropped", len(r.vs)-nk)
		return r.call(func() string {
			res := slice.Partition(r.vs, keep)
			o := r.sub(res)
			vs := fmtInts(r.vs)
			_ = append(res, 99)
			return fmt.Sprintf("%s vs=%s app=%s", o, vs, fmtInts(r.base))
		})

	case "rotate":
		k, n := atoi(op[1]), len(r.vs)
		r.noteFar("rotate", k)
		switch {
		case k < -n || k > n:
			r.st.Note("rotate-out-of-range")
		case k == 0 || k == n || k == -n:
			r.st.Note("rotate-noop")
		default:
			kk := k
			if kk < 0 {
				kk += n
				r.st.Note("rotate-negative")
			}
			g, b := kk, n
			for b != 0 {
				g, b = b, g%b
			}
			if g > 1 {
				r.st.Note("rotate-gcd>1")
				lbNote(r.st, "rotate-gcd>1-len", n)
				lbNote(r.st, "rotate-cycles", g)
			} else {
				r.st.Note("rotate-single-cycle")
				lbNote(r.st, "rotate-single-cycle-len", n)
			}
		}
		return r.call(func() string {
			slice.Rotate(r.vs, k)
			return fmt.Sprintf("ok vs=%s base=%s", fmtInts(r.vs), fmtInts(r.base))
		})

	case "chunks", "batches":
		n, l := atoi(op[1]), len(r.vs)
		r.noteFar(op[0], n)
		if op[0] == "chunks" {
			switch {
			case n < 0:
			case n == 0 || n >= l:
				if cap(r.vs) > l {
					r.st.Note("chunks-single-shortcut-spare-cap(unclipped)")
				} else {
					r.st.Note("chunks-single-shortcut")
				}
			case l%n == 0:
				r.st.Note("chunks-even")
			default:
				r.st.Note("chunks-short-last")
			}
		} else {
			switch {
			case n < 0:
			case n == 0:
				r.st.Note("batches-zero")
			case l == 0:
				r.st.Note("batches-empty-input(F3)")
			case n > l:
				r.st.Note("batches-capped")
			case l%n == 0:
				r.st.Note("batches-even")
			default:
				r.st.Note("batches-remainder")
			}
		}
		return r.call(func() string {
			var ss [][]int
			if op[0] == "chunks" {
				ss = slice.Chunks(r.vs, n)
			} else {
				ss = slice.Batches(r.vs, n)
			}
			lbNote(r.st, op[0]+"-pieces", len(ss))
			if len(ss) > 0 {
				lbNote(r.st, op[0]+"-piece-len", len(ss[0]))
			}
			o := r.subs(ss)
			for i, s := range ss {
				_ = append(s, -1-i)
			}
			return fmt.Sprintf("%s app=%s", o, fmtInts(r.base))
		})

	case "head", "tail":
		n := atoi(op[1])
		r.noteFar(op[0], n)
		switch {
		case n < 0:
		case len(r.vs) < n:
			r.st.Note(op[0] + "-whole")
		default:
			r.st.Note(op[0] + "-part")
		}
		return r.call(func() string {
			var res []int
			if op[0] == "head" {
				res = slice.Head(r.vs, n)
			} else {
				res = slice.Tail(r.vs, n)
			}
			o := r.sub(res)
			_ = append(res, 99)
			return fmt.Sprintf("%s app=%s", o, fmtInts(r.base))
		})

	case "at":
		i := atoi(op[1])
		r.noteFar("at", i)
		if i < 0 && -i <= len(r.vs) {
			r.st.Note("at-negative")
		} else if i >= 0 && i < len(r.vs) {
			r.st.Note("at-in-range")
		}
		return r.call(func() string { return fmt.Sprintf("val=%d", slice.At(r.vs, i)) })

	case "ptrat":
		i := atoi(op[1])
		r.noteFar("ptrat", i)
		return r.call(func() string {
			p := slice.PtrAt(r.vs, i)
			if p == nil {
				r.st.Note("ptrat-nil")
				return "nil"
			}
			if i < 0 {
				r.st.Note("ptrat-negative")
			} else {
				r.st.Note("ptrat-in-range")
			}
			off := -2
			for j := range r.base {
				if &r.base[j] == p {
					off = j
				}
			}
			return fmt.Sprintf("off=%d val=%d", off, *p)
		})

	case "stripe":
		i := atoi(op[1])
		var vs [][]int
		skipped := false
		for _, t := range op[2:] {
			v := c17csv(t)
			if i >= len(v) {
				skipped = true
			}
			vs = append(vs, v)
		}
		lbNote(r.st, "stripe-lists", len(vs))
		if skipped && i >= 0 {
			r.st.Note("stripe-skips-short")
		} else if i >= 0 {
			r.st.Note("stripe-all")
		}
		return r.call(func() string { return "res=" + fmtInts(slice.Stripe(vs, i)) })
	}
	return "bad-op"
}

// c17far: arguments far outside the valid range and at the ends of the int range, for a slice of length n
func c17far(n int) []int {
	return []int{2*n + 1, -2*n - 1, 3*n + 7, -3*n - 7, math.MaxInt64, math.MinInt64, math.MaxInt64 - n, math.MinInt64 + n}
}

// c17nil is the reset line of the nil slice
const c17nil = "reset 0 0 0"

func (r *c17) noteFar(op string, k int) {
	if n := len(r.vs); k > 2*n+3 || k < -2*n-3 {
		r.st.Note(op + "-far-out-of-range")
	}
}

// ---- generators ----

// c17reset lays a slice of the given values out in a backing array with `off`
// cells before it and `spare` cells of spare capacity (plus one cell beyond the
// capacity), all filled with distinct large markers.
func c17reset(vals []int, off, spare int) string {
	var sb strings.Builder
	fmt.Fprintf(&sb, "reset %d %d %d", off, len(vals), len(vals)+spare)
	m := 900
	for i := 0; i < off; i++ {
		fmt.Fprintf(&sb, " %d", m)
		m++
	}
	for _, v := range vals {
		fmt.Fprintf(&sb, " %d", v)
	}
	for i := 0; i < spare+1; i++ {
		fmt.Fprintf(&sb, " %d", m)
		m++
	}
	return sb.String()
}

func c17iota(n int) []int {
	vs := make([]int, n)
	for i := range vs {
		vs[i] = i
	}
	return vs
}

func c17rand(g *G, n, max int) []int {
	vs := make([]int, n)
	for i := range vs {
		vs[i] = g.Intn(max)
	}
	return vs
}

// c17types are the element types of the typed calls; c17typedEach emits, as fixed cases dealt to the shards, the
// call `op arg` after the reset line rs at type str and at one of the zero-size types (in turn by i), the second
// one after the plain call (the typed call then works on what the plain one left).
var c17types = []string{"str", "zs", "za"}

func c17typedEach(g *G, i int, rs, op, arg string) {
	g.Each([]string{rs, fmt.Sprintf("%st str %s", op, arg)})
	g.Each([]string{rs, fmt.Sprintf("%s %s", op, arg), fmt.Sprintf("%st %s %s", op, c17types[1+i%2], arg)})
}

func genC17Partition(g *G) {
	// exhaustive: every slice length ≤ 10 (12 thorough) with every keep/drop pattern (g.Each: the exhaustive
	// parts of the C17 generators are dealt to the generator shards, not repeated in each)
	maxN := g.Scale(10, 12)
	for n := 0; n <= maxN; n++ {
		for mask := 0; mask < 1<<n; mask++ {
			g.Each([]string{c17reset(c17iota(n), mask%3, (mask/3)%3), fmt.Sprintf("partition %d", mask)})
			if n <= 5 {
				c17typedEach(g, mask, c17reset(c17iota(n), mask%3, (mask/3)%3), "partition", fmt.Sprint(mask))
			}
		}
	}
	// the empty slice in every layout
	for off := 0; off < 2; off++ {
		for spare := 0; spare < 3; spare++ {
			g.Each([]string{c17reset(nil, off, spare), "partition 5"})
			c17typedEach(g, off+spare, c17reset(nil, off, spare), "partition", "5")
		}
	}
	g.Each([]string{c17nil, "partition 5", "partition 0"})
	g.Each([]string{c17nil, "partitiont str 5", "partitiont zs 5", "partitiont za 0"})
	// random: duplicates, longer slices, repeated partitions of the rearranged slice
	for c := 0; c < g.Scale(600, 20000); c++ {
		n := g.Intn(g.Scale(40, 200))
		ops := []string{c17reset(c17rand(g, n, 1+g.Intn(32)), g.Intn(3), g.Intn(4))}
		for k := 0; k <= g.Intn(3); k++ {
			mask := g.R.Uint32()
			switch g.Intn(8) {
			case 0:
				mask = 0
			case 1:
				mask = ^uint32(0)
			case 2:
				mask &= g.R.Uint32() // sparse
			}
			ops = append(ops, fmt.Sprintf("partition %d", mask))
			if k == 0 && c%2 == 0 {
				ops = append(ops, fmt.Sprintf("partitiont %s %d", c17types[c/2%3], g.R.Uint32()))
			}
		}
		g.Case(ops)
	}
	genC17PartitionLarge(g)
}

func genC17Rotate(g *G) {
	maxN := g.Scale(14, 24)
	for n := 0; n <= maxN; n++ {
		for k := -n - 1; k <= n+1; k++ {
			g.Each([]string{c17reset(c17iota(n), (n+k+1)%2, (n+k+1)%3), fmt.Sprintf("rotate %d", k)})
			if n <= 7 {
				c17typedEach(g, n+k+1, c17reset(c17iota(n), (n+k+1)%2, (n+k+1)%3), "rotate", fmt.Sprint(k))
			}
		}
		// far out of range and extreme offsets (Rotate panics unless -n ≤ k ≤ n), one call per case
		for j, k := range c17far(n) {
			g.Each([]string{c17reset(c17iota(n), j%2, j%3), fmt.Sprintf("rotate %d", k)})
		}
	}
	for _, k := range []int{0, 1, -1, math.MaxInt64, math.MinInt64} {
		g.Each([]string{c17nil, fmt.Sprintf("rotate %d", k)})
		g.Each([]string{c17nil, fmt.Sprintf("rotatet str %d", k), fmt.Sprintf("rotatet zs %d", k)})
	}
	for c := 0; c < g.Scale(400, 10000); c++ {
		n := g.Intn(g.Scale(64, 300))
		ops := []string{c17reset(c17rand(g, n, 50), g.Intn(3), g.Intn(3))}
		for k := 0; k <= g.Intn(4); k++ {
			kk := g.Intn(2*n+5) - n - 2
			if n > 3 && g.Chance(1, 3) {
				// a divisor-rich offset: many cycles
				d := []int{2, 3, 4, 6, 8, 12}[g.Intn(6)]
				kk = (g.Intn(n/d+1) * d) % (n + 1)
				if g.Chance(1, 2) {
					kk = -kk
				}
			}
			ops = append(ops, fmt.Sprintf("rotate %d", kk))
			if k == 0 && c%2 == 0 {
				ops = append(ops, fmt.Sprintf("rotatet %s %d", c17types[c/2%3], -kk))
			}
		}
		g.Case(ops)
	}
	genC17RotateLarge(g)
}

func genC17Sub(op string) func(g *G) {
	return func(g *G) {
		maxL := g.Scale(12, 40)
		for l := 0; l <= maxL; l++ {
			for _, spare := range []int{0, 3} {
				for _, off := range []int{0, 2} {
					for n := -2; n <= l+3; n++ {
						g.Each([]string{c17reset(c17iota(l), off, spare), fmt.Sprintf("%s %d", op, n)})
						if l <= 6 {
							c17typedEach(g, l+n, c17reset(c17iota(l), off, spare), op, fmt.Sprint(n))
						}
					}
					if l <= 12 {
						for _, n := range c17far(l) {
							g.Each([]string{c17reset(c17iota(l), off, spare), fmt.Sprintf("%s %d", op, n)})
						}
					}
				}
			}
		}
		for _, n := range []int{-1, 0, 1, 2, math.MaxInt64, math.MinInt64} {
			g.Each([]string{c17nil, fmt.Sprintf("%s %d", op, n)})
			g.Each([]string{c17nil, fmt.Sprintf("%st str %d", op, n), fmt.Sprintf("%st za %d", op, n)})
		}
		for c := 0; c < g.Scale(300, 5000); c++ {
			l := g.Intn(g.Scale(60, 400))
			ops := []string{c17reset(c17rand(g, l, 100), g.Intn(3), g.Intn(5))}
			for k := 0; k <= g.Intn(2); k++ {
				ops = append(ops, fmt.Sprintf("%s %d", op, g.Intn(l+4)-1))
				if k == 0 && c%2 == 0 {
					ops = append(ops, fmt.Sprintf("%st %s %d", op, c17types[c/2%3], g.Intn(l+4)-1))
				}
			}
			g.Case(ops)
		}
		genC17SubLarge(g, op)
	}
}

func genC17Index(g *G) {
	maxL := g.Scale(8, 16)
	for l := 0; l <= maxL; l++ {
		for _, spare := range []int{0, 2} {
			for _, off := range []int{0, 1} {
				rs := c17reset(c17iota(l), off, spare)
				for n := -2; n <= l+2; n++ {
					g.Each([]string{rs, fmt.Sprintf("head %d", n)})
					g.Each([]string{rs, fmt.Sprintf("tail %d", n)})
				}
				ops := []string{rs}
				for i := -l - 2; i <= l+1; i++ {
					ops = append(ops, fmt.Sprintf("at %d", i), fmt.Sprintf("ptrat %d", i))
				}
				g.Each(ops)
				// far out of range / extreme arguments: Head and Tail clamp (negative n panics), At panics, PtrAt
				// answers nil; one call per case (a panic ends nothing, but a minimal failing input is one call)
				for _, n := range c17far(l) {
					g.Each([]string{rs, fmt.Sprintf("head %d", n)})
					g.Each([]string{rs, fmt.Sprintf("tail %d", n)})
					g.Each([]string{rs, fmt.Sprintf("at %d", n), fmt.Sprintf("ptrat %d", n)})
				}
			}
		}
	}
	for _, n := range []int{-1, 0, 1, math.MaxInt64, math.MinInt64} {
		g.Each([]string{c17nil, fmt.Sprintf("head %d", n), fmt.Sprintf("tail %d", n), fmt.Sprintf("at %d", n), fmt.Sprintf("ptrat %d", n)})
	}
	// random part for Head/Tail/At/PtrAt: longer slices with arbitrary values in every layout
	for c := 0; c < g.Scale(300, 5000); c++ {
		l := g.Intn(g.Scale(60, 300))
		ops := []string{c17reset(c17rand(g, l, 1000), g.Intn(3), g.Intn(4))}
		for k := 0; k < 6; k++ {
			n := g.Intn(2*l+6) - l - 3
			if g.Chance(1, 8) {
				n = c17far(l)[g.Intn(8)]
			}
			ops = append(ops, fmt.Sprintf("%s %d", g.Pick("head", "tail", "at", "ptrat"), n))
		}
		g.Case(ops)
	}
	for c := 0; c < g.Scale(400, 8000); c++ {
		m := g.Intn(6)
		maxLen := 0
		var lists []string
		for j := 0; j < m; j++ {
			l := g.Intn(6)
			if l > maxLen {
				maxLen = l
			}
			if l == 0 {
				lists = append(lists, "-")
				continue
			}
			var fs []string
			for _, v := range c17rand(g, l, 100) {
				fs = append(fs, strconv.Itoa(v))
			}
			lists = append(lists, strings.Join(fs, ","))
		}
		ops := []string{c17reset(nil, 0, 0)}
		for i := -1; i <= maxLen+1; i++ {
			ops = append(ops, strings.TrimSpace(fmt.Sprintf("stripe %d %s", i, strings.Join(lists, " "))))
		}
		g.Case(ops)
	}
	genC17IndexLarge(g)
}

func init() {
	mk := func(st *Stats) Runner { return &c17{st: st} }
	register(&Stream{Name: "C17.partition", Gen: genC17Partition, New: mk})
	register(&Stream{Name: "C17.rotate", Gen: genC17Rotate, New: mk})
	register(&Stream{Name: "C17.chunks", Gen: genC17Sub("chunks"), New: mk})
	register(&Stream{Name: "C17.batches", Gen: genC17Sub("batches"), New: mk})
	register(&Stream{Name: "C17.index", Gen: genC17Index, New: mk})
}
