package main

import (
	"fmt"
	"sort"
)

// Helpers for the LARGE and carry-over families of the generators of C01–C08 and C10 (DESIGN.md §3.2:
// generator quality bounds what the correspondence check sees).  Breaking changes of the form "an
// optimisation that only kicks in above a size threshold" (a shrink policy once cap > 32, a fast path for
// >= 64 entries, a mask that is a modulo only for power-of-two lengths once the buffer passed 512) are
// invisible to generators that only build small structures.  Every stream of this group therefore has a
// low-frequency family that crosses the sizes below in both directions (grow past the threshold, shrink
// below a quarter of it, regrow), from every construction route of the API.

// lgThresholds are the sizes a large case crosses.
var lgThresholds = []int{8, 16, 32, 33, 64, 65, 128, 256, 257, 512, 513, 1024, 4096, 4097}

// lgCaps are capacities Go's append reaches when a slice grows one element at a time beyond 512 (the growth
// factor is no longer 2 there), so that "len < cap/4" or "len == cap" style tests have their boundaries visited
// too.
var lgCaps = []int{848, 1280, 1792, 2560, 3408, 5120}

// lgPoints returns, in ascending order, the sizes ≤ n at which a large case makes a FULL observation of the
// state: every threshold T (and, for slice-backed structures, every capacity of lgCaps), T/2, T/4 and T/8, each
// with its two neighbours; 0..small; and n itself.
func lgPoints(n, small int, caps bool) []int {
	set := map[int]bool{n: true}
	add := func(v int) {
		for d := -1; d <= 1; d++ {
			if v+d >= 0 && v+d <= n {
				set[v+d] = true
			}
		}
	}
	ts := append([]int{}, lgThresholds...)
	if caps {
		ts = append(ts, lgCaps...)
	}
	for _, t := range ts {
		add(t)
		add(t / 2)
		add(t / 4)
		add(t / 8)
	}
	for i := 0; i <= small && i <= n; i++ {
		set[i] = true
	}
	var out []int
	for v := range set {
		out = append(out, v)
	}
	sort.Ints(out)
	return out
}

// lgTrack turns the sizes a runner sees into the evidence labels of the large families:
// "<name>-grown>=T", "<name>-grown>=T-then-drained<T/4" and "<name>-regrown>=T-after-drain".
type lgTrack struct {
	hw      int          // largest size since the last reset
	drained map[int]bool // thresholds the structure was at or above and has since fallen below a quarter of
}

func (t *lgTrack) reset() { t.hw, t.drained = 0, nil }

func (t *lgTrack) see(st *Stats, name string, n int) {
	for _, T := range lgThresholds {
		if T < 32 {
			continue // sizes every small case reaches: not worth a label
		}
		if n >= T && t.hw < T {
			st.Note(fmt.Sprintf("%s-grown>=%d", name, T))
		}
		if T > t.hw && T > n {
			break
		}
		if t.drained[T] {
			if n >= T {
				st.Note(fmt.Sprintf("%s-regrown>=%d-after-drain", name, T))
				t.drained[T] = false
			}
		} else if t.hw >= T && 4*n < T {
			st.Note(fmt.Sprintf("%s-grown>=%d-then-drained<%d/4", name, T, T))
			if t.drained == nil {
				t.drained = map[int]bool{}
			}
			t.drained[T] = true
		}
	}
	if n > t.hw {
		t.hw = n
	}
}
