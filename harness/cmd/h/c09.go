package main

import (
	"fmt"
	"runtime"
	"strings"
	"sync"
	"sync/atomic"

	"github.com/creachadair/mds/cache"
)

// C09: concurrent cache.Cache workloads.  One op line describes a whole
// workload: `run <limit> <gomaxprocs>[t][v] <tid>:<op>:<args…> …` (flag t: tight mode, flag v: the size
// of a value is value%3+1 instead of 1 — the driver reads the same flag; per-thread program
// order = order of appearance).  Each goroutine executes its ops in order and
// records invocation/response ticks from one atomic counter; the observation
// is the recorded history plus the eviction-callback log and final Len/Size.
// The Lean driver searches for a linearization against the sequential model.

type c09 struct{ st *Stats }

type c09ev struct {
	tid      int
	op       string
	inv, res int64
	result   string
}

func (r *c09) Exec(op []string) string {
	if op[0] == "reset" {
		return "-"
	}
	flags := strings.TrimLeft(op[2], "0123456789")
	tight := strings.Contains(flags, "t")   // tight mode: no artificial yields anywhere (short critical sections, spinning waiters)
	varSize := strings.Contains(flags, "v") // size of a value = value%3+1 (refused Puts, Puts evicting several entries, Size ≠ Len)
	limit, procs := atoi(op[1]), atoi(strings.TrimSuffix(op[2], flags))
	if varSize {
		r.st.Note("variable-sizes")
	}
	old := runtime.GOMAXPROCS(procs)
	defer runtime.GOMAXPROCS(old)
	var evlog []string // appended only inside the callback, i.e. under the cache's own mutex
	// The size function and the callback run inside the cache's critical section; letting them yield
	// stretches that section so that other goroutines really arrive while a call is in progress.
	c := cache.New(int64(limit), cache.LRU[int, int]().WithSize(func(v int) int64 {
		if !tight {
			runtime.Gosched()
		}
		if varSize {
			return int64(v%3 + 1)
		}
		return 1
	}).OnEvict(func(k, v int) {
		evlog = append(evlog, fmt.Sprintf("%d:%d", k, v))
		if !tight {
			runtime.Gosched()
		}
	}))
	progs := map[int][]string{}
	var tids []int
	for _, t := range op[3:] {
		parts := strings.SplitN(t, ":", 2)
		tid := atoi(parts[0])
		if _, ok := progs[tid]; !ok {
			tids = append(tids, tid)
		}
		progs[tid] = append(progs[tid], parts[1])
	}
	var clock, ready atomic.Int64
	var wg sync.WaitGroup
	results := make([][]c09ev, len(tids))
	start := make(chan struct{})
	for i, tid := range tids {
		wg.Add(1)
		go func(i, tid int) {
			defer wg.Done()
			<-start
			ready.Add(1)
			for ready.Load() < int64(len(tids)) { // spin barrier: everybody is running before the first call
				runtime.Gosched()
			}
			for j, o := range progs[tid] {
				// de-synchronise the goroutines a little so that calls really overlap
				if !tight {
					for y := (tid*7 + j*3 + len(o)) % 4; y > 0; y-- {
						runtime.Gosched()
					}
				}
				f := strings.Split(o, ":")
				e := c09ev{tid: tid, op: o}
				e.inv = clock.Add(1)
				func() {
					defer func() {
						if x := recover(); x != nil { // a panic inside a call is an observation, not a harness crash
							e.result = "panic:" + c09clean(panicClass(x))
						}
					}()
					c09call(c, f, &e)
				}()
				e.res = clock.Add(1)
				results[i] = append(results[i], e)
				if strings.HasPrefix(e.result, "panic:") {
					return
				}
			}
		}(i, tid)
	}
	close(start)
	wg.Wait()
	var hs []string
	overlap := false
	for i := range results {
		for _, e := range results[i] {
			hs = append(hs, fmt.Sprintf("%d/%s/%d/%d/%s", e.tid, e.op, e.inv, e.res, e.result))
			if e.res != e.inv+1 {
				overlap = true
			}
			if strings.HasPrefix(e.op, "put:") && e.result == "F" {
				r.st.Note("put-refused")
			}
		}
	}
	if c.Size() != int64(c.Len()) {
		r.st.Note("final-size!=len")
	}
	if all := strings.Join(op[3:], " "); tight && strings.Contains(all, ":clear") && strings.Contains(all, ":remove:") {
		r.st.Note("hot-key-with-remove-and-clear")
	}
	if overlap {
		r.st.Note("overlapping-calls")
	}
	if len(evlog) > 0 {
		r.st.Note("evictions")
	}
	return fmt.Sprintf("hist=%s;ev=[%s];len=%d;size=%d", strings.Join(hs, " "), strings.Join(evlog, " "), c.Len(), c.Size())
}

// c09clean keeps a panic class from breaking the history syntax: `/` separates the fields of an event, a
// space separates events and `;` separates the fields of the observation (the driver rejects a history it
// cannot read, so an unsanitised class would turn a panic into `malformed-history` instead of showing it).
func c09clean(s string) string {
	return strings.Map(func(r rune) rune {
		if r == '/' || r == ';' || r == ' ' {
			return '_'
		}
		return r
	}, s)
}

func c09call(c *cache.Cache[int, int], f []string, e *c09ev) {
	switch f[0] {
	case "put":
		e.result = fmtBool(c.Put(atoi(f[1]), atoi(f[2])))
	case "get":
		v, ok := c.Get(atoi(f[1]))
		e.result = fmtPop(v, ok)
	case "has":
		e.result = fmtBool(c.Has(atoi(f[1])))
	case "remove":
		e.result = fmtBool(c.Remove(atoi(f[1])))
	case "len":
		e.result = fmt.Sprint(c.Len())
	case "size":
		e.result = fmt.Sprint(c.Size())
	case "clear":
		c.Clear()
		e.result = "-"
	}
}

func genC09(g *G) {
	cases := g.Scale(1500, 30000)
	for c := 0; c < cases; c++ {
		nthreads := 2 + g.Intn(3)
		// limit ≤ 4 (and sizes ≥ 1) is load-bearing: the reference-LRU verdict of this stream has no excuse for
		// finding F2, which needs 5 live entries (C08_lru_small_cache); a larger limit would give false alarms.
		limit := 1 + g.Intn(4)
		keys := 2 + g.Intn(3)
		procs := []int{1, 2, 4, 8, 16}[g.Intn(5)]
		flags := ""
		if g.Chance(1, 3) {
			flags = "v" // sizes value%3+1: refused and multi-evicting Puts under concurrency
		}
		var toks []string
		val := 1
		if g.Chance(1, 4) {
			// hot-key pattern: one writer keeps replacing the same key while the others only observe it;
			// any window in which the key is transiently absent (or counted twice) is not linearizable
			// (half of them: the writer also removes the key now and then and the last observer clears the
			// cache twice, so that "absent" is a legal answer in some windows and not in others)
			hot := g.Intn(keys)
			withRemove := g.Chance(1, 2)
			for i := 0; i < 8; i++ {
				toks = append(toks, fmt.Sprintf("0:put:%d:%d", hot, val))
				val++
				if withRemove && i%3 == 1 {
					toks = append(toks, fmt.Sprintf("0:remove:%d", hot))
				}
				if withRemove && (i == 2 || i == 6) {
					toks = append(toks, fmt.Sprintf("%d:clear", nthreads-1))
				}
				for j := 0; j < 5; j++ { // observers run long tight loops so that they are contending when a window opens
					for t := 1; t < nthreads; t++ {
						toks = append(toks, fmt.Sprintf("%d:%s", t, g.Pick(fmt.Sprintf("has:%d", hot), fmt.Sprintf("has:%d", hot), fmt.Sprintf("get:%d", hot), "len", "size")))
					}
				}
			}
			if procs == 1 {
				procs = 4
			}
			g.Case([]string{"reset", fmt.Sprintf("run %d %dt%s %s", limit, procs, flags, strings.Join(toks, " "))})
			continue
		}
		// mixed workload: every thread runs up to 6 random calls
		perThread := make([]int, nthreads)
		total := nthreads * (2 + g.Intn(4))
		for i := 0; i < total; i++ {
			t := g.Intn(nthreads)
			if perThread[t] >= 6 {
				continue
			}
			perThread[t]++
			k := g.Intn(keys)
			var o string
			switch x := g.Intn(100); {
			case x < 38:
				o = fmt.Sprintf("put:%d:%d", k, val)
				val++
			case x < 60:
				o = fmt.Sprintf("get:%d", k)
			case x < 70:
				o = fmt.Sprintf("has:%d", k)
			case x < 84:
				o = fmt.Sprintf("remove:%d", k)
			case x < 90:
				o = "len"
			case x < 96:
				o = "size"
			default:
				o = "clear"
			}
			toks = append(toks, fmt.Sprintf("%d:%s", t, o))
		}
		g.Case([]string{"reset", fmt.Sprintf("run %d %d%s %s", limit, procs, flags, strings.Join(toks, " "))})
	}
}

func init() {
	register(&Stream{Name: "C09", Gen: genC09, New: func(st *Stats) Runner { return &c09{st: st} }})
}
