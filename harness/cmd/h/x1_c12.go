package main

import (
	"cmp"
	"fmt"
	"math"
	"slices"

	"github.com/creachadair/mds/compare"
	"github.com/creachadair/mds/slice"
)

// C12.compare: package compare (FromLessFunc, ToLessFunc, Reversed, Bool) and
// slice.LISFunc / LNDSFunc under comparison functions built by that package
// ("under any comparison function").  State: one integer sequence (c11.lhs).

type x1c12 struct{ c11 }

func x1c12Parity(a int) bool { return a%2 != 0 }

// x1c12Cmp builds the comparison function of a mode with package compare.
func x1c12Cmp(mode string) func(a, b int) int {
	lt := func(a, b int) bool { return a < b }
	ltHalf := func(a, b int) bool { return a/2 < b/2 }
	diff := func(a, b int) int { return a - b }
	par := func(a, b int) int { return compare.Bool(x1c12Parity(a), x1c12Parity(b)) }
	switch mode {
	case "fl":
		return compare.FromLessFunc(lt)
	case "flhalf":
		return compare.FromLessFunc(ltHalf)
	case "rfl":
		return compare.Reversed(compare.FromLessFunc(lt))
	case "rflhalf":
		return compare.Reversed(compare.FromLessFunc(ltHalf))
	case "rdiff":
		return compare.Reversed(diff)
	case "ftl":
		return compare.FromLessFunc(compare.ToLessFunc(diff))
	case "rr":
		return compare.Reversed(compare.Reversed(func(a, b int) int { return 2 * (a - b) }))
	case "parity":
		return par
	case "rparity":
		return compare.Reversed(par)
	case "rmin":
		return compare.Reversed(func(a, b int) int {
			if a < b {
				return math.MinInt64
			} else if a > b {
				return math.MaxInt64
			}
			return 0
		})
	}
	return cmp.Compare[int]
}

var x1c12Modes = []string{"fl", "flhalf", "rfl", "rflhalf", "rdiff", "ftl", "rr", "parity", "rparity"}

func (r *x1c12) Exec(op []string) string {
	switch op[0] {
	case "pair":
		a, b := atoi(op[2]), atoi(op[3])
		c := x1c12Cmp(op[1])
		got := c(a, b)
		switch {
		case op[1] == "rmin" && a < b:
			r.st.Note("pair-reversed-of-MinInt64(sign-not-reversed)")
		case got < 0:
			r.st.Note("pair-" + op[1] + "-before")
		case got > 0:
			r.st.Note("pair-" + op[1] + "-after")
		case a != b:
			r.st.Note("pair-" + op[1] + "-equivalent-distinct")
		default:
			r.st.Note("pair-" + op[1] + "-equal")
		}
		return fmt.Sprintf("c=%d lt=%s", got, fmtBool(compare.ToLessFunc(c)(a, b)))
	case "bool":
		r.st.Note("bool-" + op[1] + op[2])
		return fmt.Sprintf("c=%d", compare.Bool(op[1] == "T", op[2] == "T"))
	case "lis", "lnds":
		vs := slices.Clone(r.lhs)
		var res []int
		if op[0] == "lis" {
			res = slice.LISFunc(vs, x1c12Cmp(op[1]))
		} else {
			res = slice.LNDSFunc(vs, x1c12Cmp(op[1]))
		}
		switch {
		case len(vs) == 0:
			r.st.Note(op[0] + "-empty")
		case len(res) == len(vs):
			r.st.Note(op[0] + "-" + op[1] + "-whole-input")
		case len(res) == 1:
			r.st.Note(op[0] + "-" + op[1] + "-singleton")
		default:
			r.st.Note(op[0] + "-" + op[1] + "-proper")
		}
		lbNote(r.st, op[0]+"-input", len(vs))
		lbNote(r.st, op[0]+"-result", len(res))
		return fmt.Sprintf("res=%s mod=%s", fmtInts(res), fmtBool(!slices.Equal(vs, r.lhs)))
	}
	return r.c11.Exec(op)
}

func genX1Compare(g *G) {
	// the four Bool pairs; every mode on every pair of [-3, 6]
	g.Case([]string{"reset", "bool F F", "bool F T", "bool T F", "bool T T"})
	for _, m := range append(slices.Clone(x1c12Modes), "rmin") {
		ops := []string{"reset"}
		for a := -3; a <= 6; a++ {
			for b := -3; b <= 6; b++ {
				ops = append(ops, fmt.Sprintf("pair %s %d %d", m, a, b))
			}
		}
		g.Case(ops)
	}
	// extreme arguments (differences near the int64 limits stay representable)
	ext := []int{0, 1, -1, math.MaxInt32, math.MinInt32, 1 << 60, -(1 << 60)} // 2*(a-b) of mode rr must stay below 2^63
	ops := []string{"reset"}
	for _, a := range ext {
		for _, b := range ext {
			ops = append(ops, fmt.Sprintf("pair %s %d %d", g.Pick(x1c12Modes...), a, b))
		}
	}
	g.Case(ops)
	// LISFunc / LNDSFunc under every built comparator: every sequence over 4 symbols of length ≤ 5 (7), sharded
	var calls []string
	for _, m := range x1c12Modes {
		calls = append(calls, "lis "+m, "lnds "+m)
	}
	g.Case(append([]string{"reset -"}, calls...))
	me, k := c11shard(g)
	for idx, w := range c11words(4, g.Scale(5, 7), false) {
		if len(w) == 0 || idx%k != me {
			continue
		}
		g.Case(append([]string{"reset " + c11fmtCsv(w)}, calls...))
	}
	for c := 0; c < g.Scale(150, 3000); c++ {
		n := 1 + g.Intn(g.Scale(60, 250))
		alpha := 2 + g.Intn(12)
		ops := []string{"reset"}
		for i := 0; i < n; {
			l := 1 + g.Intn(6)
			run := make([]int, l)
			for j := range run {
				run[j] = g.Intn(alpha)
			}
			ops = append(ops, c11line("v", run))
			i += l
		}
		g.Case(append(ops, calls...))
	}
	genC12LisLarge(g, calls, []int{1000})
}

func init() {
	register(&Stream{Name: "C12.compare", Gen: genX1Compare, New: func(st *Stats) Runner { return &x1c12{c11{st: st}} }})
}
