package main

import (
	"errors"
	"fmt"
	"sort"
	"strconv"
	"strings"

	"github.com/creachadair/mds/slice"
	"github.com/creachadair/mds/value"
)

// C17.dedup / C17.misc: slice.Dedup, Reverse, Zero, Select, MapKeys,
// MatchingKeys on the state of C17 (one backing array + the argument slice vs,
// see c17.go).  C17.value: package value (Maybe, Check, Ptr, At, AtDefault,
// Cond, AtMaybe).
//
// Map iteration order is unspecified: mapkeys/matching print what the
// implementation returned / which values the predicate was called with, in the
// order it happened; the Lean driver replays the model on that order and the
// spec judges the output as a permutation / selection.

type x1c17 struct{ c17 }

func x1c17Keep(mask uint64) func(int) bool {
	return func(v int) bool { return mask>>(uint(v)%32)&1 == 1 }
}

// x1c17Entries parses "k:v,k:v,…" or "-".
func x1c17Entries(t string) map[int]int {
	m := map[int]int{}
	if t == "-" {
		return m
	}
	for _, kv := range strings.Split(t, ",") {
		k, v, _ := strings.Cut(kv, ":")
		m[atoi(k)] = atoi(v)
	}
	return m
}

func (r *x1c17) Exec(op []string) string {
	switch op[0] {
	case "dedup", "reverse", "zero", "select":
		r.noteLen(op[0])
	}
	switch op[0] {
	case "dedup":
		n, runs, maxRun, cur := len(r.vs), 0, 0, 0
		for i, v := range r.vs {
			if i == 0 || v != r.vs[i-1] {
				runs++
				cur = 0
			}
			cur++
			maxRun = max(maxRun, cur)
		}
		switch {
		case n < 2:
			r.st.Note("dedup-short(<2)")
		case runs == n:
			r.st.Note("dedup-no-duplicates(returns-vs)")
		case runs == 1:
			r.st.Note("dedup-single-run")
		case r.vs[0] == r.vs[1]:
			r.st.Note("dedup-first-run-long")
		case r.vs[n-1] == r.vs[n-2]:
			r.st.Note("dedup-last-run-long")
		default:
			r.st.Note("dedup-inner-runs")
		}
		if maxRun >= 3 {
			r.st.Note("dedup-run>=3")
		}
		lbNote(r.st, "dedup-longest-run", maxRun)
		lbNote(r.st, "dedup-runs", runs)
		if cap(r.vs) > n && runs < n {
			r.st.Note("dedup-spare-cap(result-keeps-cap)")
		}
		return r.call(func() string {
			res := slice.Dedup(r.vs)
			o := r.sub(res)
			vs := fmtInts(r.vs)
			_ = append(res, 99)
			return fmt.Sprintf("%s vs=%s app=%s", o, vs, fmtInts(r.base))
		})

	case "reverse":
		switch n := len(r.vs); {
		case n < 2:
			r.st.Note("reverse-trivial")
		case n%2 == 1:
			r.st.Note("reverse-odd(middle-stays)")
		default:
			r.st.Note("reverse-even")
		}
		return r.call(func() string {
			slice.Reverse(r.vs)
			return fmt.Sprintf("ok vs=%s base=%s", fmtInts(r.vs), fmtInts(r.base))
		})

	case "zero":
		if len(r.vs) == 0 {
			r.st.Note("zero-empty")
		} else {
			r.st.Note("zero-nonempty")
		}
		return r.call(func() string {
			slice.Zero(r.vs)
			return fmt.Sprintf("ok vs=%s base=%s", fmtInts(r.vs), fmtInts(r.base))
		})

	case "select":
		mask, _ := strconv.ParseUint(op[1], 10, 64)
		lim := atoi(op[2])
		keep := x1c17Keep(mask)
		return r.call(func() string {
			visited := 0
			f := func(v int) bool { visited++; return keep(v) }
			out := []int{}
			for v := range slice.Select(r.vs, f) {
				out = append(out, v)
				if len(out) == lim {
					break
				}
			}
			switch {
			case len(out) == 0:
				r.st.Note("select-none")
			case visited < len(r.vs):
				r.st.Note("select-stopped-early")
			case len(out) == lim:
				r.st.Note("select-stopped-at-last-element")
			case len(out) == len(r.vs):
				r.st.Note("select-all")
			default:
				r.st.Note("select-some")
			}
			lbNote(r.st, "select-yielded", len(out))
			return fmt.Sprintf("y=%s visited=%d", fmtInts(out), visited)
		})

	case "mapkeys":
		m := x1c17Entries(op[1])
		lbNote(r.st, "mapkeys-entries", len(m))
		return r.call(func() string {
			keys := slice.MapKeys(m)
			if keys == nil {
				r.st.Note("mapkeys-empty(nil)")
			} else if !sort.IntsAreSorted(keys) {
				r.st.Note("mapkeys-unsorted-order")
			} else {
				r.st.Note("mapkeys-sorted-order")
			}
			if keys == nil {
				return "keys=[] nil=T cap=0"
			}
			return fmt.Sprintf("keys=%s nil=F cap=%d", fmtInts(keys), cap(keys))
		})

	case "matching":
		mask, _ := strconv.ParseUint(op[1], 10, 64)
		lim := atoi(op[2])
		m := x1c17Entries(op[3])
		keep := x1c17Keep(mask)
		return r.call(func() string {
			seen := []int{}
			f := func(v int) bool { seen = append(seen, v); return keep(v) }
			out := []int{}
			for k := range slice.MatchingKeys(m, f) {
				out = append(out, k)
				if len(out) == lim {
					break
				}
			}
			switch {
			case len(m) == 0:
				r.st.Note("matching-empty-map")
			case len(out) == 0:
				r.st.Note("matching-none")
			case len(seen) < len(m):
				r.st.Note("matching-stopped-early")
			case len(out) == len(m):
				r.st.Note("matching-all")
			default:
				r.st.Note("matching-some")
			}
			lbNote(r.st, "matching-entries", len(m))
			lbNote(r.st, "matching-yielded", len(out))
			return fmt.Sprintf("y=%s seen=%s", fmtInts(out), fmtInts(seen))
		})
	}
	return r.c17.Exec(op)
}

// ---- generators ----

// x1c17Words enumerates every sequence over {0..alpha-1} of length exactly n.
func x1c17Words(alpha, n int, f func([]int)) {
	w := make([]int, n)
	var rec func(i int)
	rec = func(i int) {
		if i == n {
			f(append([]int(nil), w...))
			return
		}
		for a := 0; a < alpha; a++ {
			w[i] = a
			rec(i + 1)
		}
	}
	rec(0)
}

func genX1Dedup(g *G) {
	// exhaustive: every sequence over 3 symbols (one of them the zero value) of length ≤ 7 (9 thorough),
	// in rotating layouts (offset 0..2, spare capacity 0..2)
	maxN := g.Scale(7, 9)
	idx := 0
	for n := 0; n <= maxN; n++ {
		x1c17Words(3, n, func(w []int) {
			g.Each([]string{c17reset(w, idx%3, (idx/3)%3), "dedup"}) // exhaustive part: dealt to the generator shards
			idx++
		})
	}
	// random: long runs, repeated dedup (second call finds nothing), dedup after other in-place operations
	for c := 0; c < g.Scale(500, 15000); c++ {
		var vs []int
		alpha := 1 + g.Intn(5)
		for len(vs) < g.Intn(g.Scale(40, 200)) {
			v := g.Intn(alpha)
			for k := 0; k <= g.Intn(1+g.Intn(6)); k++ {
				vs = append(vs, v)
			}
		}
		ops := []string{c17reset(vs, g.Intn(3), g.Intn(4)), "dedup"}
		if g.Chance(1, 3) {
			ops = append(ops, g.Pick("dedup", "reverse", "rotate 1"), "dedup")
		}
		g.Case(ops)
	}
	genX1DedupLarge(g)
}

func x1c17EntriesTok(g *G, n, keyRange int) string {
	if n == 0 {
		return "-"
	}
	keys := g.R.Perm(keyRange)[:n]
	sort.Ints(keys)
	var fs []string
	for _, k := range keys {
		// distinct values (the predicate's call log identifies the entry): v = 32*k + tag
		fs = append(fs, fmt.Sprintf("%d:%d", k, 32*k+g.Intn(8)))
	}
	return strings.Join(fs, ",")
}

func genX1Misc(g *G) {
	// reverse / zero: every length ≤ 12 (32) in every layout
	maxL := g.Scale(12, 32)
	for l := 0; l <= maxL; l++ {
		for off := 0; off < 2; off++ {
			for spare := 0; spare < 3; spare++ {
				vs := c17iota(l)
				for i := range vs {
					vs[i]++ // no zero values: Zero must change every cell
				}
				g.Each([]string{c17reset(vs, off, spare), "reverse", "reverse"})
				g.Each([]string{c17reset(vs, off, spare), "zero"})
				g.Each([]string{c17reset(vs, off, spare), "reverse", "zero", "reverse"})
			}
		}
	}
	// select: every keep mask on ≤ 6 (8) elements with every stop limit
	maxN := g.Scale(6, 8)
	for n := 0; n <= maxN; n++ {
		rs := c17reset(c17iota(n), n%2, n%3)
		for mask := 0; mask < 1<<n; mask++ {
			ops := []string{rs}
			for lim := 0; lim <= n+1; lim++ {
				ops = append(ops, fmt.Sprintf("select %d %d", mask, lim))
			}
			g.Each(ops)
		}
	}
	for c := 0; c < g.Scale(300, 6000); c++ {
		n := g.Intn(g.Scale(40, 200))
		ops := []string{c17reset(c17rand(g, n, 1+g.Intn(32)), g.Intn(3), g.Intn(3))}
		for k := 0; k <= g.Intn(3); k++ {
			mask := g.R.Uint32()
			if g.Chance(1, 6) {
				mask = 0
			}
			ops = append(ops, fmt.Sprintf("select %d %d", mask, g.Intn(n+2)), g.Pick("reverse", "zero", "select 4294967295 0", "dedup"))
		}
		g.Case(ops)
	}
	// mapkeys / matching: every size ≤ 6 (9), every limit, masks over the value tags
	maxM := g.Scale(6, 9)
	for n := 0; n <= maxM; n++ {
		for rep := 0; rep < g.Scale(6, 20); rep++ {
			es := x1c17EntriesTok(g, n, n+3)
			ops := []string{c17reset(nil, 0, 0), "mapkeys " + es}
			for lim := 0; lim <= n+1; lim++ {
				mask := g.R.Uint32() & 0xff
				switch g.Intn(5) {
				case 0:
					mask = 0xff
				case 1:
					mask = 0
				}
				ops = append(ops, fmt.Sprintf("matching %d %d %s", mask, lim, es))
			}
			g.Case(ops)
		}
	}
	for c := 0; c < g.Scale(200, 4000); c++ {
		n := g.Intn(g.Scale(30, 120))
		es := x1c17EntriesTok(g, n, n+10)
		g.Case([]string{c17reset(nil, 0, 0), "mapkeys " + es,
			fmt.Sprintf("matching %d %d %s", g.R.Uint32()&0xff, g.Intn(n+2), es),
			fmt.Sprintf("matching 255 0 %s", es)})
	}
	genX1MiscLarge(g)
}

// ---- C17.value ----

type x1val struct{ st *Stats }

func x1valPtr(t string) *int {
	if t == "nil" {
		return nil
	}
	return value.Ptr(atoi(t))
}

func x1valFmtPtr(p *int) string {
	if p == nil {
		return "nil"
	}
	return strconv.Itoa(*p)
}

// x1valMaybe prints everything observable of m, with Or(o).
func x1valMaybe(m value.Maybe[int], o int) string {
	v, ok := m.GetOK()
	p := m.Ptr()
	ps := x1valFmtPtr(p)
	if p != nil {
		*p += 1000 // m has a value receiver: writing through the pointer must not change m
	}
	r := m.Or(o)
	return fmt.Sprintf("p=%s ok=%d,%s get=%d ptr=%s str=%s or=%s,%d eqabs=%s eqjust=%s",
		fmtBool(m.Present()), v, fmtBool(ok), m.Get(), ps, m.String(), fmtBool(r.Present()), r.Get(),
		fmtBool(m == value.Absent[int]()), fmtBool(m == value.Just(m.Get())))
}

func (r *x1val) Exec(op []string) string {
	for _, t := range op[1:] {
		if v, err := strconv.Atoi(t); err == nil && (v >= 1<<31 || v < -(1<<31)) {
			r.st.Note("value-int-beyond-32-bits")
			break
		}
	}
	switch op[0] {
	case "reset":
		return "ok"
	case "just":
		r.st.Note("maybe-just")
		return x1valMaybe(value.Just(atoi(op[1])), atoi(op[2]))
	case "absent":
		r.st.Note("maybe-absent")
		return x1valMaybe(value.Absent[int](), atoi(op[1]))
	case "zero":
		r.st.Note("maybe-zero-value")
		var m value.Maybe[int]
		return x1valMaybe(m, atoi(op[1]))
	case "check":
		var err error
		if op[2] != "nil" {
			err = errors.New(op[2])
			r.st.Note("check-error")
		} else {
			r.st.Note("check-ok")
		}
		return x1valMaybe(value.Check(atoi(op[1]), err), atoi(op[3]))
	case "atmaybe":
		r.st.Note("atmaybe-" + map[bool]string{true: "nil", false: "ptr"}[op[1] == "nil"])
		return x1valMaybe(value.AtMaybe(x1valPtr(op[1])), atoi(op[2]))
	case "or2":
		r.st.Note("or-chain")
		return x1valMaybe(value.AtMaybe(x1valPtr(op[1])).Or(atoi(op[2])), atoi(op[3]))
	case "ptr":
		v := atoi(op[1])
		p1, p2 := value.Ptr(v), value.Ptr(v)
		fresh := p1 != p2
		*p1++
		fresh = fresh && *p2 == v
		r.st.Note("ptr")
		return fmt.Sprintf("val=%d fresh=%s", *p2, fmtBool(fresh))
	case "at":
		r.st.Note("at-" + map[bool]string{true: "nil", false: "ptr"}[op[1] == "nil"])
		return fmt.Sprintf("val=%d", value.At(x1valPtr(op[1])))
	case "atdefault":
		r.st.Note("atdefault-" + map[bool]string{true: "nil", false: "ptr"}[op[1] == "nil"])
		return fmt.Sprintf("val=%d", value.AtDefault(x1valPtr(op[1]), atoi(op[2])))
	case "cond":
		r.st.Note("cond-" + op[1])
		return fmt.Sprintf("val=%d", value.Cond(op[1] == "T", atoi(op[2]), atoi(op[3])))
	}
	return "bad-op"
}

func genX1Value(g *G) {
	vals := []int{0, 1, -1, 7, 42}
	ptrs := []string{"nil", "0", "5", "-3"}
	// exhaustive over the small value sets
	for _, v := range vals {
		for _, o := range vals {
			ops := []string{"reset", fmt.Sprintf("just %d %d", v, o), fmt.Sprintf("absent %d", o), fmt.Sprintf("zero %d", o),
				fmt.Sprintf("check %d nil %d", v, o), fmt.Sprintf("check %d boom %d", v, o), fmt.Sprintf("ptr %d", v)}
			for _, p := range ptrs {
				ops = append(ops, fmt.Sprintf("atmaybe %s %d", p, o), fmt.Sprintf("or2 %s %d %d", p, v, o),
					"at "+p, fmt.Sprintf("atdefault %s %d", p, o))
			}
			ops = append(ops, fmt.Sprintf("cond T %d %d", v, o), fmt.Sprintf("cond F %d %d", v, o))
			g.Each(ops)
		}
	}
	rv := func() int { return g.Intn(2001) - 1000 }
	rp := func() string {
		if g.Chance(1, 3) {
			return "nil"
		}
		return strconv.Itoa(rv())
	}
	for c := 0; c < g.Scale(300, 3000); c++ {
		ops := []string{"reset"}
		for k := 0; k < 8; k++ {
			switch g.Intn(9) {
			case 0:
				ops = append(ops, fmt.Sprintf("just %d %d", rv(), rv()))
			case 1:
				ops = append(ops, fmt.Sprintf("absent %d", rv()))
			case 2:
				ops = append(ops, fmt.Sprintf("check %d %s %d", rv(), g.Pick("nil", "e1", "EOF"), rv()))
			case 3:
				ops = append(ops, fmt.Sprintf("atmaybe %s %d", rp(), rv()))
			case 4:
				ops = append(ops, fmt.Sprintf("or2 %s %d %d", rp(), rv(), rv()))
			case 5:
				ops = append(ops, "at "+rp())
			case 6:
				ops = append(ops, fmt.Sprintf("atdefault %s %d", rp(), rv()))
			case 7:
				ops = append(ops, fmt.Sprintf("cond %s %d %d", g.Pick("T", "F"), rv(), rv()))
			case 8:
				ops = append(ops, fmt.Sprintf("ptr %d", rv()))
			}
		}
		g.Case(ops)
	}
	genX1ValueLarge(g)
}

func init() {
	mk := func(st *Stats) Runner { return &x1c17{c17{st: st}} }
	register(&Stream{Name: "C17.dedup", Gen: genX1Dedup, New: mk})
	register(&Stream{Name: "C17.misc", Gen: genX1Misc, New: mk})
	register(&Stream{Name: "C17.value", Gen: genX1Value, New: func(st *Stats) Runner { return &x1val{st: st} }})
}
